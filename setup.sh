#!/bin/sh
# Build the verifier from files on disk only (offline).
set -e
export GOFLAGS=-mod=mod GOPROXY=off GOSUMDB=off GOTOOLCHAIN=local
cd "$(dirname "$0")/govc"
mkdir -p ../bin
go build -o ../bin/govc .
