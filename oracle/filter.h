/* SPDX-License-Identifier: GPL-2.0 WITH Linux-syscall-note */
/*
 * Linux Socket Filter Data Structures
 */

#ifndef __LINUX_FILTER_H__
#define __LINUX_FILTER_H__


#include <linux/types.h>
#include <linux/bpf_common.h>

/*
 * Current version of the filter code architecture.
 */
#define BPF_MAJOR_VERSION 1
#define BPF_MINOR_VERSION 1

/*
 *	Try and keep these values and structures similar to BSD, especially
 *	the BPF code definitions which need to match so you can share filters
 */
 
struct sock_filter {	/* Filter block */
	__u16	code;   /* Actual filter code */
	__u8	jt;	/* Jump true */
	__u8	jf;	/* Jump false */
	__u32	k;      /* Generic multiuse field */
};

struct sock_fprog {	/* Required for SO_ATTACH_FILTER. */
	unsigned short		len;	/* Number of filter blocks */
	struct sock_filter *filter;
};

/* ret - BPF_K and BPF_X also apply */
#define BPF_RVAL(code)  ((code) & 0x18)
#define         BPF_A           0x10

/* misc */
#define BPF_MISCOP(code) ((code) & 0xf8)
#define         BPF_TAX         0x00
#define         BPF_TXA         0x80

/*
 * Macros for filter block array initializers.
 */
#ifndef BPF_STMT
#define BPF_STMT(code, k) { (unsigned short)(code), 0, 0, k }
#endif
#ifndef BPF_JUMP
#define BPF_JUMP(code, k, jt, jf) { (unsigned short)(code), jt, jf, k }
#endif

/*
 * Number of scratch memory words for: BPF_ST and BPF_STX
 */
#define BPF_MEMWORDS 16

/* RATIONALE. Negative offsets are invalid in BPF.
   We use them to reference ancillary data.
   Unlike introduction new instructions, it does not break
   existing compilers/optimizers.
 */
#define SKF_AD_OFF    (-0x1000)
#define SKF_AD_PROTOCOL 0
#define SKF_AD_PKTTYPE 	4
#define SKF_AD_IFINDEX 	8
#define SKF_AD_NLATTR	12
#define SKF_AD_NLATTR_NEST	16
#define SKF_AD_MARK 	20
#define SKF_AD_QUEUE	24
#define SKF_AD_HATYPE	28
#define SKF_AD_RXHASH	32
#define SKF_AD_CPU	36
#define SKF_AD_ALU_XOR_X	40
#define SKF_AD_VLAN_TAG	44
#define SKF_AD_VLAN_TAG_PRESENT 48
#define SKF_AD_PAY_OFFSET	52
#define SKF_AD_RANDOM	56
#define SKF_AD_VLAN_TPID	60
#define SKF_AD_MAX	64

#define SKF_NET_OFF	(-0x100000)
#define SKF_LL_OFF	(-0x200000)

#define BPF_NET_OFF	SKF_NET_OFF
#define BPF_LL_OFF	SKF_LL_OFF

#endif /* __LINUX_FILTER_H__ */
