/* SPDX-License-Identifier: GPL-2.0 WITH Linux-syscall-note */
#ifndef __LINUX_BPF_COMMON_H__
#define __LINUX_BPF_COMMON_H__

/* Instruction classes */
#define BPF_CLASS(code) ((code) & 0x07)
#define		BPF_LD		0x00
#define		BPF_LDX		0x01
#define		BPF_ST		0x02
#define		BPF_STX		0x03
#define		BPF_ALU		0x04
#define		BPF_JMP		0x05
#define		BPF_RET		0x06
#define		BPF_MISC        0x07

/* ld/ldx fields */
#define BPF_SIZE(code)  ((code) & 0x18)
#define		BPF_W		0x00 /* 32-bit */
#define		BPF_H		0x08 /* 16-bit */
#define		BPF_B		0x10 /*  8-bit */
/* eBPF		BPF_DW		0x18    64-bit */
#define BPF_MODE(code)  ((code) & 0xe0)
#define		BPF_IMM		0x00
#define		BPF_ABS		0x20
#define		BPF_IND		0x40
#define		BPF_MEM		0x60
#define		BPF_LEN		0x80
#define		BPF_MSH		0xa0

/* alu/jmp fields */
#define BPF_OP(code)    ((code) & 0xf0)
#define		BPF_ADD		0x00
#define		BPF_SUB		0x10
#define		BPF_MUL		0x20
#define		BPF_DIV		0x30
#define		BPF_OR		0x40
#define		BPF_AND		0x50
#define		BPF_LSH		0x60
#define		BPF_RSH		0x70
#define		BPF_NEG		0x80
#define		BPF_MOD		0x90
#define		BPF_XOR		0xa0

#define		BPF_JA		0x00
#define		BPF_JEQ		0x10
#define		BPF_JGT		0x20
#define		BPF_JGE		0x30
#define		BPF_JSET        0x40
#define BPF_SRC(code)   ((code) & 0x08)
#define		BPF_K		0x00
#define		BPF_X		0x08

#ifndef BPF_MAXINSNS
#define BPF_MAXINSNS 4096
#endif

#endif /* __LINUX_BPF_COMMON_H__ */
