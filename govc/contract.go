package main

// Parser for //@ contract files (see DESIGN.md section 4).

import (
	"fmt"
	"go/ast"
	"go/parser"
	"go/token"
	"os"
	"regexp"
	"strconv"
	"strings"
)

type Clause struct {
	Label string
	Props []string
	// Only: written {C07!}: the clause is assumed only in obligations that carry one of its properties (a scoped
	// hypothesis: it cannot disturb the proofs of the function's other obligations; dropping a hypothesis is sound)
	Only  bool
	Expr  string
	File  string
	Line  int
}

type LoopSpec struct {
	N          int
	Binder     string
	Invariants []Clause
	Decreases  string
	Match      string // text the loop header must contain (binding by content instead of by position)
}

type GhostStmt struct {
	Stmt string // "lhs = expr" or "havoc x" or "assume e"
	At   string
	File string
	Line int
}

type AssertSpec struct {
	Clause
	At   string
	Hint bool // proof hint: assumed only when proved; a failing hint is not a violation by itself
}

type FuncSpec struct {
	Key       string // "pkg.Recv.Name" or "pkg.Name"
	Pkg       string
	Header    string
	Decl      *ast.FuncDecl
	Extern    bool
	Trusted   bool
	Pure      bool
	Props     []string
	Requires  []Clause
	Ensures   []Clause
	Modifies  []string
	Loops     map[int]*LoopSpec
	Ghosts    []GhostStmt
	Asserts   []AssertSpec
	Calls     map[string][]string // func-typed field -> possible targets
	RetElem   string              // result is nil or &param[k]
	Opaque    []string            // spec functions kept uninterpreted in this function's obligations
	OpaqueExc map[string][]string // spec function -> labels of the obligations that still see its definition
	Decreases string              // lemmas: measure for recursive uses (induction)
	File      string
	Line      int
	Lets      []LetSpec
	Uses      []UseSpec
	IsLemma   bool
	CrashInv  []Clause // asserted after every callee that modifies ghost state mentioned in the clause
	NoReturn  bool
	FrameProps []string // frame obligations of this function additionally count for these properties
	Determined bool     // the postconditions determine the results: a uniqueness obligation is generated
	Deterministic []string // determinism discipline (syntactic pass) counts for these properties
	Fresh         []string // results of reference type are freshly allocated (provenance pass) for these properties
	NoSafety  bool
	Terminate bool
}

// UseSpec invokes a lemma at a site: use name(args) at site.
type UseSpec struct {
	Call string
	When string // lemmas: guard of the instance ("use L(args) when cond")
	At   string
	File string
	Line int
}

// LetSpec names a spec expression (evaluated at function entry).
type LetSpec struct {
	Name string
	Expr string
}

type TypeSpec struct {
	Name       string // "pkg.Type"
	Ghost      []FieldInfo
	Invariants []Clause
}

type GlobalSpec struct {
	Name string // pkg.Var
	Kind string // immutable | havoc
}

type AxiomSpec struct {
	Clause
	Pkg string
}

type Contracts struct {
	Funcs   map[string]*FuncSpec
	Types   map[string]*TypeSpec
	Globals map[string]*GlobalSpec
	Axioms  []AxiomSpec
	Files   []string
	// textual scan for trusted/assume/axiom
	AssumeScan []string
}

func NewContracts() *Contracts {
	return &Contracts{Funcs: map[string]*FuncSpec{}, Types: map[string]*TypeSpec{}, Globals: map[string]*GlobalSpec{}}
}

var clauseKeywords = map[string]bool{
	"func": true, "extern": true, "type": true, "global": true, "axiom": true, "requires": true, "ensures": true,
	"modifies": true, "decreases": true, "loop": true, "invariant": true, "ghost": true, "assert": true,
	"calls": true, "pure": true, "trusted": true, "returns_elem": true, "opaque": true, "let": true, "nosafety": true,
	"package": true, "field": true, "terminates": true, "macro": true, "lemma": true, "use": true, "hint": true, "noreturn": true, "crash_invariant": true, "frame_props": true, "determined": true, "deterministic": true, "fresh": true,
}

// Macro is a textual abbreviation usable in contract expressions: macro NAME(a, b) = body.
type Macro struct {
	Name   string
	Params []string
	Body   string
}

var macros = map[string]*Macro{}

var identRe = regexp.MustCompile(`[A-Za-z_][A-Za-z0-9_]*`)

// expandMacros substitutes macro applications (innermost arguments first), up to a fixed depth.
func expandMacros(s string) string {
	for depth := 0; depth < 40; depth++ {
		changed := false
		for _, loc := range identRe.FindAllStringIndex(s, -1) {
			name := s[loc[0]:loc[1]]
			m, ok := macros[name]
			if !ok || loc[1] >= len(s) || s[loc[1]] != '(' {
				continue
			}
			if loc[0] > 0 && (s[loc[0]-1] == '.' ) {
				continue
			}
			// balanced argument list
			d := 0
			end := -1
			for i := loc[1]; i < len(s); i++ {
				if s[i] == '(' {
					d++
				} else if s[i] == ')' {
					d--
					if d == 0 {
						end = i
						break
					}
				}
			}
			if end < 0 {
				break
			}
			args := splitTopCommas(s[loc[1]+1 : end])
			if len(m.Params) == 0 {
				args = nil
			}
			if len(args) != len(m.Params) {
				break
			}
			body := m.Body
			body = identRe.ReplaceAllStringFunc(body, func(id string) string {
				for i, p := range m.Params {
					if p == id {
						return "(" + strings.TrimSpace(args[i]) + ")"
					}
				}
				return id
			})
			s = s[:loc[0]] + "(" + body + ")" + s[end+1:]
			changed = true
			break
		}
		if !changed {
			return s
		}
	}
	return s
}

var labelRe = regexp.MustCompile(`^@([A-Za-z0-9_.\-]+)\s+`)
var propsRe = regexp.MustCompile(`^\{([A-Z0-9 ,]+)(!?)\}\s+`)

func parseClause(rest, file string, line int) Clause {
	c := Clause{File: file, Line: line}
	rest = strings.TrimSpace(rest)
	if m := labelRe.FindStringSubmatch(rest); m != nil {
		c.Label = m[1]
		rest = rest[len(m[0]):]
	}
	if m := propsRe.FindStringSubmatch(rest); m != nil {
		c.Props = strings.Fields(strings.ReplaceAll(m[1], ",", " "))
		c.Only = m[2] == "!"
		rest = rest[len(m[0]):]
	}
	c.Expr = strings.TrimSpace(rest)
	return c
}

// ParseFile reads one contract file. pkgName is taken from the "package" line
// (Go source) or a "//@ package x" clause.
func (cs *Contracts) ParseFile(path string) error {
	data, err := os.ReadFile(path)
	if err != nil {
		return err
	}
	cs.Files = append(cs.Files, path)
	type rawClause struct {
		kw, rest string
		line     int
	}
	var raws []rawClause
	pkg := ""
	for i, ln := range strings.Split(string(data), "\n") {
		t := strings.TrimSpace(ln)
		if strings.HasPrefix(t, "package ") && pkg == "" {
			pkg = strings.TrimSpace(strings.TrimPrefix(t, "package "))
			continue
		}
		if !strings.HasPrefix(t, "//@") {
			continue
		}
		body := strings.TrimSpace(t[3:])
		if body == "" || strings.HasPrefix(body, "#") {
			continue
		}
		// strip trailing comment " // ..."
		if k := strings.Index(body, " // "); k >= 0 {
			body = strings.TrimSpace(body[:k])
		}
		fs := strings.Fields(body)
		if clauseKeywords[fs[0]] {
			raws = append(raws, rawClause{fs[0], strings.TrimSpace(body[len(fs[0]):]), i + 1})
		} else if len(raws) > 0 {
			raws[len(raws)-1].rest += " " + body
		} else {
			return fmt.Errorf("%s:%d: stray contract line", path, i+1)
		}
	}
	var curF *FuncSpec
	var curT *TypeSpec
	var curL *LoopSpec
	for _, rc := range raws {
		low := strings.ToLower(rc.rest)
		if rc.kw == "axiom" || rc.kw == "trusted" || strings.Contains(low, "assume") {
			cs.AssumeScan = append(cs.AssumeScan, fmt.Sprintf("%s:%d: %s %s", shortPath(path), rc.line, rc.kw, rc.rest))
		}
		switch rc.kw {
		case "macro":
			fs := strings.SplitN(rc.rest, "=", 2)
			if len(fs) != 2 {
				return fmt.Errorf("%s:%d: macro needs NAME(params) = body", path, rc.line)
			}
			head := strings.TrimSpace(fs[0])
			k := strings.Index(head, "(")
			if k < 0 || !strings.HasSuffix(head, ")") {
				return fmt.Errorf("%s:%d: macro head", path, rc.line)
			}
			m := &Macro{Name: head[:k], Body: strings.TrimSpace(fs[1])}
			for _, p := range strings.Split(head[k+1:len(head)-1], ",") {
				if p = strings.TrimSpace(p); p != "" {
					m.Params = append(m.Params, p)
				}
			}
			macros[m.Name] = m
		case "package":
			pkg = rc.rest
		case "func", "extern", "lemma":
			hdr := rc.rest
			if rc.kw == "extern" {
				hdr = strings.TrimSpace(strings.TrimPrefix(hdr, "func"))
			}
			props := []string(nil)
			if k := strings.Index(hdr, " properties "); k >= 0 {
				props = strings.Fields(hdr[k+len(" properties "):])
				hdr = hdr[:k]
			}
			fpkg := pkg
			// extern headers may be qualified: "strings.HasPrefix(s, p string) bool" or "(s *bufio.Scanner) Scan() bool"
			fd, qpkg, err := parseFuncHeader(hdr)
			if err != nil {
				return fmt.Errorf("%s:%d: %v", path, rc.line, err)
			}
			if qpkg != "" {
				fpkg = qpkg
			}
			key := funcKey(fpkg, fd)
			if rc.kw == "lemma" {
				key = fpkg + ".lemma." + fd.Name.Name
			}
			curF = &FuncSpec{Key: key, Pkg: fpkg, Header: hdr, Decl: fd, Extern: rc.kw == "extern", IsLemma: rc.kw == "lemma", Props: props, Loops: map[int]*LoopSpec{}, Calls: map[string][]string{}, File: path, Line: rc.line}
			if rc.kw == "extern" {
				curF.Trusted = true
			}
			if _, dup := cs.Funcs[key]; dup {
				return fmt.Errorf("%s:%d: duplicate contract for %s", path, rc.line, key)
			}
			cs.Funcs[key] = curF
			curT, curL = nil, nil
		case "type":
			name := pkg + "." + strings.TrimSpace(rc.rest)
			curT = cs.Types[name]
			if curT == nil {
				curT = &TypeSpec{Name: name}
				cs.Types[name] = curT
			}
			curF, curL = nil, nil
		case "field":
			// ghost field of the current type: "field name Sort"
			if curT == nil {
				return fmt.Errorf("%s:%d: field outside type block", path, rc.line)
			}
			fs := strings.SplitN(rc.rest, " ", 2)
			if len(fs) != 2 {
				return fmt.Errorf("%s:%d: field needs name and sort", path, rc.line)
			}
			curT.Ghost = append(curT.Ghost, FieldInfo{Name: fs[0], Sort: strings.TrimSpace(fs[1]), Ghost: true})
		case "global":
			fs := strings.Fields(rc.rest)
			if len(fs) < 2 {
				return fmt.Errorf("%s:%d: global needs name and kind", path, rc.line)
			}
			cs.Globals[pkg+"."+fs[0]] = &GlobalSpec{Name: pkg + "." + fs[0], Kind: strings.TrimSpace(strings.TrimPrefix(rc.rest, fs[0]))}
		case "axiom":
			cs.Axioms = append(cs.Axioms, AxiomSpec{Clause: parseClause(rc.rest, path, rc.line), Pkg: pkg})
		default:
			if curF == nil && !(rc.kw == "invariant" && curT != nil) {
				return fmt.Errorf("%s:%d: clause %q outside func block", path, rc.line, rc.kw)
			}
			switch rc.kw {
			case "requires":
				curF.Requires = append(curF.Requires, parseClause(rc.rest, path, rc.line))
				curL = nil
			case "ensures":
				curF.Ensures = append(curF.Ensures, parseClause(rc.rest, path, rc.line))
				curL = nil
			case "modifies":
				for _, m := range strings.Split(rc.rest, ",") {
					if m = strings.TrimSpace(m); m != "" {
						curF.Modifies = append(curF.Modifies, m)
					}
				}
			case "pure":
				curF.Pure = true
			case "trusted":
				curF.Trusted = true
			case "nosafety":
				curF.NoSafety = true
			case "noreturn":
				curF.NoReturn = true
			case "frame_props":
				curF.FrameProps = append(curF.FrameProps, strings.Fields(rc.rest)...)
			case "determined":
				curF.Determined = true
			case "deterministic":
				curF.Deterministic = append(curF.Deterministic, strings.Fields(rc.rest)...)
			case "fresh":
				curF.Fresh = append(curF.Fresh, strings.Fields(rc.rest)...)
			case "crash_invariant":
				curF.CrashInv = append(curF.CrashInv, parseClause(rc.rest, path, rc.line))
			case "terminates":
				curF.Terminate = true
			case "returns_elem":
				curF.RetElem = strings.TrimSpace(rc.rest)
			case "opaque":
				// opaque f g [except label ...]: f and g are uninterpreted in the obligations of this function,
				// except in those whose label is listed (they need the definition)
				fs := strings.Fields(rc.rest)
				var exc []string
				for i, f := range fs {
					if f == "except" {
						exc = fs[i+1:]
						fs = fs[:i]
						break
					}
				}
				curF.Opaque = append(curF.Opaque, fs...)
				if len(exc) > 0 {
					if curF.OpaqueExc == nil {
						curF.OpaqueExc = map[string][]string{}
					}
					for _, f := range fs {
						curF.OpaqueExc[f] = append(curF.OpaqueExc[f], exc...)
					}
				}
			case "let":
				fs := strings.SplitN(rc.rest, "=", 2)
				if len(fs) != 2 {
					return fmt.Errorf("%s:%d: let needs name = expr", path, rc.line)
				}
				curF.Lets = append(curF.Lets, LetSpec{strings.TrimSpace(fs[0]), strings.TrimSpace(fs[1])})
			case "calls":
				// calls p.parse in parseX86_64, other
				fs := strings.SplitN(rc.rest, " in ", 2)
				if len(fs) != 2 {
					return fmt.Errorf("%s:%d: calls needs 'field in targets'", path, rc.line)
				}
				var ts []string
				for _, t := range strings.Split(fs[1], ",") {
					ts = append(ts, strings.TrimSpace(t))
				}
				curF.Calls[strings.TrimSpace(fs[0])] = ts
			case "loop":
				fs := strings.Fields(rc.rest)
				n, err := strconv.Atoi(fs[0])
				if err != nil {
					return fmt.Errorf("%s:%d: loop needs ordinal", path, rc.line)
				}
				curL = &LoopSpec{N: n}
				// loop N [binder b] [match <text of the loop header>]: with match, contract loop N is bound to the
				// first loop (in source order) whose header contains the text, so that loops added or removed
				// elsewhere in the function do not shift it
				rest := strings.TrimSpace(strings.TrimPrefix(strings.TrimSpace(rc.rest), fs[0]))
				if k := strings.Index(rest, "match "); k >= 0 {
					curL.Match = strings.TrimSpace(rest[k+6:])
					rest = rest[:k]
				}
				bf := strings.Fields(rest)
				for i := 0; i+1 < len(bf); i += 2 {
					if bf[i] == "binder" {
						curL.Binder = bf[i+1]
					}
				}
				curF.Loops[n] = curL
			case "invariant":
				if curL != nil {
					curL.Invariants = append(curL.Invariants, parseClause(rc.rest, path, rc.line))
				} else if curT != nil {
					curT.Invariants = append(curT.Invariants, parseClause(rc.rest, path, rc.line))
				} else {
					return fmt.Errorf("%s:%d: invariant outside loop/type", path, rc.line)
				}
			case "decreases":
				if curL != nil {
					curL.Decreases = rc.rest
				} else {
					// measure of an inductive lemma
					curF.Decreases = rc.rest
				}
			case "ghost":
				at := "exit"
				st := rc.rest
				if k := strings.LastIndex(st, " at "); k >= 0 {
					at = strings.TrimSpace(st[k+4:])
					st = strings.TrimSpace(st[:k])
				}
				curF.Ghosts = append(curF.Ghosts, GhostStmt{Stmt: st, At: at, File: path, Line: rc.line})
			case "use":
				at := "exit"
				st := rc.rest
				if k := strings.LastIndex(st, " at "); k >= 0 {
					at = strings.TrimSpace(st[k+4:])
					st = strings.TrimSpace(st[:k])
				}
				when := ""
				if k := strings.Index(st, " when "); k >= 0 {
					when = strings.TrimSpace(st[k+6:])
					st = strings.TrimSpace(st[:k])
				}
				curF.Uses = append(curF.Uses, UseSpec{Call: st, When: when, At: at, File: path, Line: rc.line})
			case "assert", "hint":
				at := "exit"
				st := rc.rest
				if k := strings.LastIndex(st, " at "); k >= 0 {
					at = strings.TrimSpace(st[k+4:])
					st = strings.TrimSpace(st[:k])
				}
				curF.Asserts = append(curF.Asserts, AssertSpec{Clause: parseClause(st, path, rc.line), At: at, Hint: rc.kw == "hint"})
			}
		}
	}
	return nil
}

func shortPath(p string) string {
	p = strings.TrimPrefix(p, "/repo/")
	p = strings.TrimPrefix(p, "/verif/")
	return p
}

// parseFuncHeader parses "(p *Program) LdHi(arg uint32)" or "Name(args) results" or qualified "strings.HasPrefix(...)".
func parseFuncHeader(hdr string) (*ast.FuncDecl, string, error) {
	hdr = strings.TrimSpace(hdr)
	qpkg := ""
	// qualified plain function: pkg.Name(
	if !strings.HasPrefix(hdr, "(") {
		if k := strings.Index(hdr, "("); k > 0 {
			name := hdr[:k]
			if d := strings.LastIndex(name, "."); d >= 0 {
				qpkg = name[:d]
				hdr = name[d+1:] + hdr[k:]
			}
		}
	} else {
		// receiver may be qualified: (s *bufio.Scanner)
		end := strings.Index(hdr, ")")
		recv := hdr[1:end]
		fs := strings.Fields(recv)
		typ := fs[len(fs)-1]
		star := strings.HasPrefix(typ, "*")
		typ = strings.TrimPrefix(typ, "*")
		if d := strings.LastIndex(typ, "."); d >= 0 {
			qpkg = typ[:d]
			typ = typ[d+1:]
			if star {
				typ = "*" + typ
			}
			nm := "_"
			if len(fs) == 2 {
				nm = fs[0]
			}
			hdr = "(" + nm + " " + typ + ")" + hdr[end+1:]
		}
	}
	src := "package x\nfunc " + hdr + " {}\n"
	f, err := parser.ParseFile(token.NewFileSet(), "", src, 0)
	if err != nil {
		return nil, "", fmt.Errorf("bad func header %q: %v", hdr, err)
	}
	return f.Decls[0].(*ast.FuncDecl), qpkg, nil
}

func recvTypeName(fd *ast.FuncDecl) string {
	if fd.Recv == nil || len(fd.Recv.List) == 0 {
		return ""
	}
	t := fd.Recv.List[0].Type
	if s, ok := t.(*ast.StarExpr); ok {
		t = s.X
	}
	if id, ok := t.(*ast.Ident); ok {
		return id.Name
	}
	return ""
}

func funcKey(pkg string, fd *ast.FuncDecl) string {
	if r := recvTypeName(fd); r != "" {
		return pkg + "." + r + "." + fd.Name.Name
	}
	return pkg + "." + fd.Name.Name
}

// splitImplies rewrites top-level "A ==> B" (right associative) into implies(A, B).
func splitImplies(s string) string {
	depth := 0
	inStr := false
	for i := 0; i+2 < len(s); i++ {
		c := s[i]
		if c == '"' {
			inStr = !inStr
		}
		if inStr {
			continue
		}
		switch c {
		case '(', '[', '{':
			depth++
		case ')', ']', '}':
			depth--
		}
		if depth == 0 && s[i:i+3] == "==>" {
			return "implies(" + s[:i] + ", " + splitImplies(s[i+3:]) + ")"
		}
	}
	return s
}

// splitImpliesDeep: recursive descent over parenthesised groups.
func splitImpliesDeep(s string) string {
	if !strings.Contains(s, "==>") {
		return s
	}
	// rewrite inside each top-level parenthesised group first
	var b strings.Builder
	depth := 0
	start := -1
	inStr := false
	for i := 0; i < len(s); i++ {
		c := s[i]
		if c == '"' {
			inStr = !inStr
		}
		if inStr {
			if depth == 0 {
				b.WriteByte(c)
			}
			continue
		}
		if c == '(' || c == '[' || c == '{' {
			if depth == 0 {
				start = i
			}
			depth++
			continue
		}
		if c == ')' || c == ']' || c == '}' {
			depth--
			if depth == 0 {
				inner := s[start+1 : i]
				parts := splitTopCommas(inner)
				for k := range parts {
					parts[k] = splitImpliesDeep(parts[k])
				}
				b.WriteByte(s[start])
				b.WriteString(strings.Join(parts, ","))
				b.WriteByte(c)
			}
			continue
		}
		if depth == 0 {
			b.WriteByte(c)
		}
	}
	return splitImplies(b.String())
}

func splitTopCommas(s string) []string {
	var parts []string
	depth := 0
	last := 0
	inStr := false
	for i := 0; i < len(s); i++ {
		c := s[i]
		if c == '"' {
			inStr = !inStr
		}
		if inStr {
			continue
		}
		switch c {
		case '(', '[', '{':
			depth++
		case ')', ']', '}':
			depth--
		case ',':
			if depth == 0 {
				parts = append(parts, s[last:i])
				last = i + 1
			}
		}
	}
	parts = append(parts, s[last:])
	return parts
}

// ParseSpecExpr parses a contract expression (Go syntax + ==>).
func ParseSpecExpr(s string) (ast.Expr, error) {
	r := splitImpliesDeep(expandMacros(s))
	e, err := parser.ParseExpr(r)
	if err != nil {
		return nil, fmt.Errorf("spec expr %q: %v", s, err)
	}
	return e, nil
}
