package main

// Engine: loads /repo, contracts, spec library; indexes functions.

import (
	"fmt"
	"go/ast"
	"go/token"
	"go/types"
	"os"
	"path/filepath"
	"regexp"
	"sort"
	"strings"

	"golang.org/x/tools/go/packages"
)

type FuncInfo struct {
	Key  string
	Pkg  *packages.Package
	Decl *ast.FuncDecl
	Obj  *types.Func
}

type Engine struct {
	RepoDir   string
	VerifDir  string
	Fset      *token.FileSet
	Pkgs      []*packages.Package
	PkgByName map[string]*packages.Package // by import path and by package name (repo packages)
	AllPkgs   map[string]*types.Package    // all transitively imported, by path
	Funcs     map[string]*FuncInfo
	Contracts *Contracts
	Spec      *SpecLib
	Sorts     *Sorts
	Notes     []string // e.g. "contracts taken from mirror"
	GOOS      string
	GOARCH    string
	globalCache map[types.Object]*globalDef
	DepPkgs []*packages.Package // dependencies with functions under contract
	writtenGlobals map[types.Object][]string
}

func pkgShort(p *types.Package) string {
	if p == nil {
		return ""
	}
	return p.Name()
}

// funcKeyOf returns the contract key for a types.Func: pkgname.Recv.Name or pkgname.Name.
func funcKeyOf(f *types.Func) string {
	sig := f.Type().(*types.Signature)
	pk := pkgShort(f.Pkg())
	if r := sig.Recv(); r != nil {
		t := r.Type()
		if p, ok := t.(*types.Pointer); ok {
			t = p.Elem()
		}
		if n, ok := t.(*types.Named); ok {
			return pk + "." + n.Obj().Name() + "." + f.Name()
		}
		// interface method
		return pk + ".?." + f.Name()
	}
	return pk + "." + f.Name()
}

func LoadEngine(repo, verif, goos, goarch string, tags []string) (*Engine, error) {
	e := &Engine{RepoDir: repo, VerifDir: verif, Fset: token.NewFileSet(), PkgByName: map[string]*packages.Package{},
		AllPkgs: map[string]*types.Package{}, Funcs: map[string]*FuncInfo{}, Contracts: NewContracts(), Spec: NewSpecLib(), Sorts: NewSorts(),
		GOOS: goos, GOARCH: goarch, globalCache: map[types.Object]*globalDef{}}
	env := append(os.Environ(), "GOFLAGS=-mod=mod", "GOPROXY=off", "GOSUMDB=off", "GOTOOLCHAIN=local", "CGO_ENABLED=0")
	if goos != "" {
		env = append(env, "GOOS="+goos)
	}
	if goarch != "" {
		env = append(env, "GOARCH="+goarch)
	}
	cfg := &packages.Config{
		Mode: packages.NeedName | packages.NeedSyntax | packages.NeedTypes | packages.NeedTypesInfo | packages.NeedFiles |
			packages.NeedImports | packages.NeedDeps | packages.NeedCompiledGoFiles,
		Dir: repo, Fset: e.Fset, Env: env, BuildFlags: []string{"-tags=" + strings.Join(tags, ",")},
	}
	pkgs, err := packages.Load(cfg, "./...")
	if err != nil {
		return nil, err
	}
	for _, p := range pkgs {
		if len(p.Errors) > 0 {
			return nil, fmt.Errorf("package %s: %v", p.PkgPath, p.Errors[0])
		}
	}
	e.Pkgs = pkgs
	var visit func(p *packages.Package)
	seen := map[string]bool{}
	byPath := map[string]*packages.Package{}
	visit = func(p *packages.Package) {
		if seen[p.PkgPath] {
			return
		}
		seen[p.PkgPath] = true
		e.AllPkgs[p.PkgPath] = p.Types
		byPath[p.PkgPath] = p
		for _, ip := range p.Imports {
			visit(ip)
		}
	}
	for _, p := range pkgs {
		visit(p)
		e.PkgByName[p.PkgPath] = p
		name := p.Name
		if name == "main" {
			name = "main:" + filepath.Base(p.PkgPath)
		}
		e.PkgByName[name] = p
		for _, f := range p.Syntax {
			for _, d := range f.Decls {
				fd, ok := d.(*ast.FuncDecl)
				if !ok || fd.Body == nil {
					continue
				}
				obj, _ := p.TypesInfo.Defs[fd.Name].(*types.Func)
				if obj == nil {
					continue
				}
				key := e.keyFor(p, obj)
				e.Funcs[key] = &FuncInfo{Key: key, Pkg: p, Decl: fd, Obj: obj}
			}
		}
	}
	// dependencies whose functions are verified too (their source is read from the module cache on every run, at
	// the version go.mod/go.sum pin): registered like the repository's own packages
	for _, dep := range verifiedDeps {
		p := byPath[dep]
		if p == nil || len(p.Syntax) == 0 || p.TypesInfo == nil {
			continue
		}
		if _, taken := e.PkgByName[p.Name]; taken {
			continue
		}
		e.PkgByName[p.PkgPath] = p
		e.PkgByName[p.Name] = p
		e.DepPkgs = append(e.DepPkgs, p)
		for _, f := range p.Syntax {
			for _, d := range f.Decls {
				fd, ok := d.(*ast.FuncDecl)
				if !ok || fd.Body == nil {
					continue
				}
				obj, _ := p.TypesInfo.Defs[fd.Name].(*types.Func)
				if obj == nil {
					continue
				}
				key := e.keyFor(p, obj)
				if _, dup := e.Funcs[key]; !dup {
					e.Funcs[key] = &FuncInfo{Key: key, Pkg: p, Decl: fd, Obj: obj}
				}
			}
		}
	}
	return e, nil
}

// verifiedDeps: import paths of dependencies that have functions under contract.
var verifiedDeps = []string{"golang.org/x/net/bpf"}

// keyFor: like funcKeyOf but disambiguates the two main packages.
func (e *Engine) keyFor(p *packages.Package, f *types.Func) string {
	k := funcKeyOf(f)
	if f.Pkg() != nil && f.Pkg().Name() == "main" {
		k = "main:" + filepath.Base(f.Pkg().Path()) + strings.TrimPrefix(k, "main")
	}
	return k
}

func (e *Engine) keyOfFunc(f *types.Func) string {
	k := funcKeyOf(f)
	if f.Pkg() != nil && f.Pkg().Name() == "main" {
		k = "main:" + filepath.Base(f.Pkg().Path()) + strings.TrimPrefix(k, "main")
	}
	return k
}

// LoadContracts reads the contract files: /repo/**/verif_contracts.go (tag verif) or the mirror in /verif/contracts.
func (e *Engine) LoadContracts() error {
	mirror := filepath.Join(e.VerifDir, "contracts")
	var mirrorFiles []string
	filepath.Walk(mirror, func(path string, info os.FileInfo, err error) error {
		if err == nil && !info.IsDir() && strings.HasSuffix(path, "verif_contracts.go") {
			mirrorFiles = append(mirrorFiles, path)
		}
		return nil
	})
	sort.Strings(mirrorFiles)
	for _, mf := range mirrorFiles {
		rel, _ := filepath.Rel(mirror, mf)
		repoFile := filepath.Join(e.RepoDir, rel)
		use := repoFile
		if _, err := os.Stat(repoFile); err != nil {
			use = mf
			e.Notes = append(e.Notes, "contract file "+rel+" missing in /repo: mirror /verif/contracts used")
		}
		// package qualifier for main packages
		if err := e.Contracts.ParseFileAs(use, e.pkgQualForDir(filepath.Dir(rel))); err != nil {
			return err
		}
	}
	// external (library) contracts and spec prelude
	specDir := filepath.Join(e.VerifDir, "spec")
	ents, _ := os.ReadDir(specDir)
	for _, en := range ents {
		p := filepath.Join(specDir, en.Name())
		switch {
		case strings.HasSuffix(en.Name(), ".smt2"):
			if err := e.Spec.Load(p); err != nil {
				return fmt.Errorf("%s: %v", p, err)
			}
		case strings.HasSuffix(en.Name(), ".spec"):
			if err := e.Contracts.ParseFileAs(p, ""); err != nil {
				return err
			}
		}
	}
	// ghost fields must be known before any sort is generated
	for name, ts := range e.Contracts.Types {
		e.Sorts.ghostFields[name] = ts.Ghost
	}
	return nil
}

func (e *Engine) pkgQualForDir(rel string) string {
	switch rel {
	case "cmd/sandbox":
		return "main:sandbox"
	case "cmd/seccomp-profiler":
		return "main:seccomp-profiler"
	}
	return ""
}

// ParseFileAs parses a contract file; if qual is non-empty it overrides the package name.
func (cs *Contracts) ParseFileAs(path, qual string) error {
	before := map[string]bool{}
	for k := range cs.Funcs {
		before[k] = true
	}
	if err := cs.ParseFile(path); err != nil {
		return err
	}
	if qual == "" {
		return nil
	}
	for k, f := range cs.Funcs {
		if before[k] || f.Extern {
			continue
		}
		if strings.HasPrefix(k, "main.") {
			nk := qual + strings.TrimPrefix(k, "main")
			delete(cs.Funcs, k)
			f.Key = nk
			f.Pkg = qual
			cs.Funcs[nk] = f
		}
	}
	for k, t := range cs.Types {
		if strings.HasPrefix(k, "main.") {
			delete(cs.Types, k)
			cs.Types[k] = t
		}
	}
	return nil
}

// registerIfaceImpls scans the repo packages for conversions of concrete types to the
// interfaces we model as sums, so the interface datatypes have a box per type.
func (e *Engine) registerIfaceImpls() {
	add := func(iface string, t types.Type) {
		key := types.TypeString(t, nil)
		for _, x := range e.Sorts.ifaceImpls[iface] {
			if types.TypeString(x, nil) == key {
				return
			}
		}
		e.Sorts.ifaceImpls[iface] = append(e.Sorts.ifaceImpls[iface], t)
	}
	if bp := e.findPkg("golang.org/x/net/bpf"); bp != nil {
		for _, n := range []string{"LoadAbsolute", "JumpIf", "Jump", "RetConstant"} {
			if o := bp.Scope().Lookup(n); o != nil {
				add("bpf.Instruction", o.Type())
			}
		}
	}
	if bp := e.findPkg("encoding/binary"); bp != nil {
		for _, n := range []string{"LittleEndian", "BigEndian"} {
			if o := bp.Scope().Lookup(n); o != nil {
				add("binary.ByteOrder", o.Type())
			}
		}
	}
}

// forceSorts registers the Go types the spec library mentions by sort name (pkg.Type),
// so that their datatypes are declared before the spec text in every query.
func (e *Engine) forceSorts() {
	re := regexp.MustCompile(`[( ](?:I\.)?([a-z][a-z0-9]*)\.([A-Z][A-Za-z0-9]*)\b`)
	// the sorts of ghost globals are declared in every query (ghost state is visible across packages)
	ghostSorts := ""
	for _, gs := range e.Contracts.Globals {
		if strings.HasPrefix(gs.Kind, "ghost:") {
			ghostSorts += " " + strings.TrimPrefix(gs.Kind, "ghost:") + " "
		}
	}
	for _, m := range re.FindAllStringSubmatch(e.Spec.Text+e.Spec.PreText+ghostSorts, -1) {
		tp := e.pkgByShortName(nil, m[1])
		if p, ok := e.PkgByName[m[1]]; ok {
			tp = p.Types
		}
		if tp == nil {
			continue
		}
		if tn, ok := tp.Scope().Lookup(m[2]).(*types.TypeName); ok {
			e.Sorts.SortOf(tn.Type())
		}
	}
	re2 := regexp.MustCompile(`Slice<([a-z][a-z0-9]*)\.([A-Z][A-Za-z0-9]*)>`)
	for _, m := range re2.FindAllStringSubmatch(e.Spec.Text+e.Spec.PreText, -1) {
		tp := e.pkgByShortName(nil, m[1])
		if p, ok := e.PkgByName[m[1]]; ok {
			tp = p.Types
		}
		if tp == nil {
			continue
		}
		if tn, ok := tp.Scope().Lookup(m[2]).(*types.TypeName); ok {
			e.Sorts.SortOf(types.NewSlice(tn.Type()))
		}
	}
	if strings.Contains(e.Spec.Text, "Slice<I.bpf.Instruction>") {
		if bp := e.findPkg("golang.org/x/net/bpf"); bp != nil {
			if o := bp.Scope().Lookup("Instruction"); o != nil {
				e.Sorts.SortOf(types.NewSlice(o.Type()))
			}
		}
	}
	if strings.Contains(e.Spec.Text, "Slice<String>") {
		e.Sorts.SortOf(types.NewSlice(types.Typ[types.String]))
	}
	if strings.Contains(e.Spec.Text, "Slice<Int>") {
		e.Sorts.SortOf(types.NewSlice(types.Typ[types.Int]))
	}
}

func (e *Engine) findPkg(path string) *types.Package { return e.AllPkgs[path] }

// pkgByShortName finds an imported package by its name from the viewpoint of pkg.
func (e *Engine) pkgByShortName(from *packages.Package, name string) *types.Package {
	if from != nil {
		for _, ip := range from.Types.Imports() {
			if ip.Name() == name {
				return ip
			}
		}
		// aliases in files (e.g. seccomp "github.com/...", yaml "gopkg.in/yaml.v2")
		for _, f := range from.Syntax {
			for _, is := range f.Imports {
				if is.Name != nil && is.Name.Name == name {
					p := strings.Trim(is.Path.Value, `"`)
					if tp := e.AllPkgs[p]; tp != nil {
						return tp
					}
				}
			}
		}
	}
	var cands []string
	for p, tp := range e.AllPkgs {
		if tp.Name() == name {
			cands = append(cands, p)
		}
	}
	sort.Strings(cands)
	if len(cands) > 0 {
		// prefer shortest path (std library) for determinism
		sort.Slice(cands, func(i, j int) bool {
			if len(cands[i]) != len(cands[j]) {
				return len(cands[i]) < len(cands[j])
			}
			return cands[i] < cands[j]
		})
		return e.AllPkgs[cands[0]]
	}
	return nil
}

// evalType resolves a Go type expression in the scope of a package, including its files' imports.
func (e *Engine) evalType(p *packages.Package, expr string) (types.Type, error) {
	var lastErr error
	for _, f := range p.Syntax {
		tv, err := types.Eval(e.Fset, p.Types, f.End()-1, expr)
		if err == nil && tv.Type != nil {
			return tv.Type, nil
		}
		lastErr = err
	}
	tv, err := types.Eval(e.Fset, p.Types, token.NoPos, expr)
	if err == nil {
		return tv.Type, nil
	}
	if lastErr == nil {
		lastErr = err
	}
	return nil, lastErr
}
