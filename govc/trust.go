package main

import (
	"sort"
	"strings"
)

// assumptionList: everything the check for this property assumes rather than proves.
func (e *Engine) assumptionList(prop string, keys []string) []string {
	as := []string{
		"what the translation drops (DESIGN.md 2.2): text of error/log messages; addresses of pointers (value model, no aliasing between distinct parameters); termination unless a decreases clause is stated",
		"slices follow a value model: aliasing through copied slice headers is refused (reported as unsupported), not modelled",
		"int is 64 bits wide; slice, map and string lengths are below 2^56",
		"int<->uint32 conversions are uninterpreted bridges with the round-trip lemma instantiated at each use; bitwise | on int is uninterpreted except x|0 == x",
	}
	for _, a := range e.Contracts.AssumeScan {
		as = append(as, "contract scan: "+a)
	}
	for name, ts := range e.Contracts.Types {
		for _, inv := range ts.Invariants {
			as = append(as, "type invariant assumed for "+name+": "+inv.Expr)
		}
	}
	for k, f := range e.Contracts.Funcs {
		if f.Trusted && !f.Extern {
			kind := "contract assumed, body not verified"
			if f.IsLemma {
				kind = "meta-theory axiom (trusted lemma)"
			}
			as = append(as, kind+": "+k)
		}
	}
	for _, n := range e.Notes {
		as = append(as, n)
	}
	sort.Strings(as[4:])
	return as
}

// trustedBase: external contracts and spec files the obligations of this property rely on.
func (e *Engine) trustedBase(prop string, keys []string) []string {
	tb := []string{"govc (this verifier): contract parser, symbolic executor, encodings", "go/types + go/packages (x/tools v0.29.0)", "SMT solvers z3 5.1.0, z3 4.8.12, cvc5 1.0.3"}
	for _, f := range e.Spec.Files {
		tb = append(tb, "spec library "+shortPath(f))
	}
	var ext []string
	for k, f := range e.Contracts.Funcs {
		if f.Extern {
			ext = append(ext, k)
		}
	}
	sort.Strings(ext)
	if len(ext) > 0 {
		tb = append(tb, "trusted library contracts (spec/*.spec): "+strings.Join(ext, ", "))
	}
	return tb
}
