package main

import (
	"sort"
	"strings"
)

// assumptionList: everything the check for this property assumes rather than proves.
func (e *Engine) assumptionList(prop string, keys []string) []string {
	as := []string{
		"what the translation drops (DESIGN.md 2.2): text of error/log messages; addresses of pointers (value model, no aliasing between distinct parameters); termination unless a decreases clause is stated",
		"slices follow a value model: aliasing through copied slice headers is refused (reported as unsupported), not modelled",
		"int is 64 bits wide; slice, map and string lengths are below 2^56",
		"int<->uint32 conversions are uninterpreted bridges with the round-trip lemma instantiated at each use; bitwise | on int is uninterpreted except x|0 == x",
	}
	// only what the functions of this property can see: their own packages' contract files (a scan entry starts
	// with the contract file's path) and the packages they call into
	pkgs := map[string]bool{}
	for _, k := range keys {
		if f := e.Contracts.Funcs[k]; f != nil {
			pkgs[f.Pkg] = true
		}
	}
	// the compile path is used by the loader, the sandbox and the profiler
	if pkgs["main:sandbox"] || pkgs["main:seccomp-profiler"] {
		pkgs["seccomp"] = true
	}
	if pkgs["seccomp"] {
		pkgs["arch"] = true
	}
	if pkgs["main:seccomp-profiler"] {
		pkgs["disasm"] = true
	}
	relevantFile := func(path string) bool {
		switch {
		case strings.HasPrefix(path, "cmd/seccomp-profiler/disasm/"):
			return pkgs["disasm"]
		case strings.HasPrefix(path, "cmd/seccomp-profiler/"):
			return pkgs["main:seccomp-profiler"]
		case strings.HasPrefix(path, "cmd/sandbox/"):
			return pkgs["main:sandbox"]
		case strings.HasPrefix(path, "arch/"):
			return pkgs["arch"]
		}
		return pkgs["seccomp"] || len(pkgs) == 0
	}
	for _, a := range e.Contracts.AssumeScan {
		if relevantFile(a) {
			as = append(as, "contract scan: "+a)
		}
	}
	for name, ts := range e.Contracts.Types {
		for _, inv := range ts.Invariants {
			as = append(as, "type invariant assumed for "+name+": "+inv.Expr)
		}
	}
	for k, f := range e.Contracts.Funcs {
		if f.Trusted && !f.Extern && (pkgs[f.Pkg] || len(pkgs) == 0) {
			kind := "contract assumed, body not verified"
			if f.IsLemma {
				kind = "meta-theory axiom (trusted lemma)"
			}
			as = append(as, kind+": "+k)
		}
	}
	for _, n := range e.Notes {
		as = append(as, n)
	}
	sort.Strings(as[4:])
	return as
}

// trustedBase: external contracts and spec files the obligations of this property rely on.
func (e *Engine) trustedBase(prop string, keys []string) []string {
	tb := []string{"govc (this verifier): contract parser, symbolic executor, encodings", "go/types + go/packages (x/tools v0.29.0)", "SMT solvers z3 5.1.0, z3 4.8.12, cvc5 1.0.3"}
	for _, f := range e.Spec.Files {
		tb = append(tb, "spec library "+shortPath(f))
	}
	var ext []string
	for k, f := range e.Contracts.Funcs {
		if f.Extern {
			ext = append(ext, k)
		}
	}
	sort.Strings(ext)
	if len(ext) > 0 {
		tb = append(tb, "trusted library contracts (spec/*.spec): "+strings.Join(ext, ", "))
	}
	return tb
}
