package main

// Ground obligations over literal data of the repository (tables, constants, struct tags).
// Filled in per property (C12, C14, C19, ...).

func (e *Engine) GroundObligations(prop, tier string) ([]*Obligation, []string) {
	return nil, nil
}
