package main

// Ground obligations over literal data of the repository (tables, constants, struct tags):
// generated from the AST / constant evaluator on every run and decided by exact evaluation
// (back end "constfold"). DESIGN.md 2.5 kind `ground`.

import (
	tparse "text/template/parse"
	"encoding/json"
	"fmt"
	"go/ast"
	"go/constant"
	"go/token"
	"go/types"
	"os"
	"os/exec"
	"path/filepath"
	"reflect"
	"regexp"
	"sort"
	"strconv"
	"strings"
	"sync"

	"golang.org/x/tools/go/packages"
)

type groundCtx struct {
	e     *Engine
	prop  string
	obls  []*Obligation
	notes []string
}

func (g *groundCtx) add(fn, id, text string, ok bool, detail string, pos token.Pos) {
	o := &Obligation{ID: id, Kind: "ground", Func: fn, Props: []string{g.prop}, Goal: "true", GoalText: text, Backend: "constfold", Decls: &[]string{}}
	if pos.IsValid() {
		o.Pos = g.e.Fset.Position(pos)
	}
	if ok {
		o.Status = "discharged"
	} else {
		o.Status = "failed"
		o.Output = detail
	}
	g.obls = append(g.obls, o)
}

func (e *Engine) GroundObligations(prop, tier string) ([]*Obligation, []string) {
	g := &groundCtx{e: e, prop: prop}
	switch prop {
	case "C12":
		g.tables()
		g.inj32()
		g.auditArch()
		g.aliases()
		g.tablesFrozen()
	case "C07":
		// premise of the 'valid policies are accepted' clauses (infoInj of spec/50_policy2.smt2) for the real tables
		g.inj32()
	case "C19":
		g.constantsAllTargets(tier)
	case "C14":
		g.tags()
		g.actionTable()
	case "C01":
		g.jumpTests()
	case "C02":
		g.jumpTests()
		g.endianValues()
		g.endianProbe()
	case "C05":
		g.jumpTests()
		g.bpfOpcodes()
	case "C08":
		g.jumpTests()
		g.bpfOpcodes()
		g.endianValues()
		g.endianProbe()
	case "C13":
		g.globalsImmutable(nil)
	case "C18":
		// the assumption main makes at the call of getBinaryArch (distinct numbers have distinct names in the table of
		// the architecture returned), discharged on the literals of the three tables it can return
		g.tablesInjective([][2]string{{"I386", "syscalls386"}, {"ARM", "syscallsARM"}, {"X86_64", "syscallsX86_64"}})
		g.codeTemplate()
	case "C16":
		// the determinism half of C16's monotonicity argument: the parser tables and expressions are read-only
		g.globalsImmutable([][2]string{{"disasm", "x86_64Parser"}, {"disasm", "i386Parser"}, {"disasm", "x86_64SyscallRegex"}, {"disasm", "x86_64RawSyscallRegex"},
			{"arch", "I386"}, {"arch", "X86_64"}, {"arch", "syscalls386"}, {"arch", "syscallsX86_64"}})
	}
	return g.obls, g.notes
}

// ---- helpers over the AST ----

func (e *Engine) pkgNamed(name string) *packages.Package { return e.PkgByName[name] }

// mapLiteral returns the key/value expressions of a package-level map or slice literal variable.
func findVarInit(p *packages.Package, name string) (ast.Expr, token.Pos) {
	for _, f := range p.Syntax {
		for _, d := range f.Decls {
			gd, ok := d.(*ast.GenDecl)
			if !ok || gd.Tok != token.VAR {
				continue
			}
			for _, sp := range gd.Specs {
				vs := sp.(*ast.ValueSpec)
				for i, n := range vs.Names {
					if n.Name == name && i < len(vs.Values) {
						return vs.Values[i], n.Pos()
					}
				}
			}
		}
	}
	return nil, token.NoPos
}

type tableEntry struct {
	Num  int64
	Name string
}

func tableEntries(p *packages.Package, varName string) ([]tableEntry, token.Pos, error) {
	init, pos := findVarInit(p, varName)
	cl, ok := init.(*ast.CompositeLit)
	if !ok {
		return nil, pos, fmt.Errorf("%s is not a composite literal", varName)
	}
	var out []tableEntry
	for _, el := range cl.Elts {
		kv, ok := el.(*ast.KeyValueExpr)
		if !ok {
			return nil, pos, fmt.Errorf("%s: element without key", varName)
		}
		ktv, vtv := p.TypesInfo.Types[kv.Key], p.TypesInfo.Types[kv.Value]
		if ktv.Value == nil || vtv.Value == nil {
			return nil, pos, fmt.Errorf("%s: non-constant entry", varName)
		}
		n, _ := constant.Int64Val(ktv.Value)
		out = append(out, tableEntry{n, constant.StringVal(vtv.Value)})
	}
	return out, pos, nil
}

// ---- C12: tables ----

var nrDefine = regexp.MustCompile(`(?m)^#define\s+__NR_(\w+)\s+(?:\(__X32_SYSCALL_BIT \+ )?(\d+)\)?\s*$`)
var goSysDefine = regexp.MustCompile(`(?m)^\s+SYS_(\w+)\s+=\s+(\d+)`)

func (g *groundCtx) oracle(file string) (map[string]int64, bool) {
	data, err := os.ReadFile(filepath.Join(g.e.VerifDir, "oracle", file))
	if err != nil {
		return nil, false
	}
	m := map[string]int64{}
	if strings.HasSuffix(file, ".h") {
		for _, x := range nrDefine.FindAllStringSubmatch(string(data), -1) {
			n, _ := strconv.ParseInt(x[2], 10, 64)
			m[x[1]] = n
		}
	} else {
		for _, x := range goSysDefine.FindAllStringSubmatch(string(data), -1) {
			n, _ := strconv.ParseInt(x[2], 10, 64)
			m[strings.ToLower(x[1])] = n
		}
	}
	return m, true
}

func (g *groundCtx) tables() {
	p := g.e.pkgNamed("arch")
	if p == nil {
		g.add("arch.tables", "arch.tables#ground.load", "package arch is loaded", false, "package arch not found", token.NoPos)
		return
	}
	tables := []struct {
		v       string
		oracles []string
	}{
		{"syscallsX86_64", []string{"unistd_64.h", "go_syscall_zsysnum_linux_amd64.go.txt", "xsys_zsysnum_linux_amd64.go.txt"}},
		{"syscalls386", []string{"unistd_32.h", "go_syscall_zsysnum_linux_386.go.txt", "xsys_zsysnum_linux_386.go.txt"}},
		{"syscallsX32", []string{"unistd_x32.h"}},
		{"syscallsARM", []string{"go_syscall_zsysnum_linux_arm.go.txt", "xsys_zsysnum_linux_arm.go.txt"}},
		{"syscallsAARCH64", []string{"unistd.h", "go_syscall_zsysnum_linux_arm64.go.txt", "xsys_zsysnum_linux_arm64.go.txt"}},
	}
	for _, t := range tables {
		fn := "arch." + t.v
		ents, pos, err := tableEntries(p, t.v)
		if err != nil {
			g.add(fn, fn+"#ground.literal", "table is a literal of constant entries", false, err.Error(), pos)
			continue
		}
		g.add(fn, fn+"#ground.literal", fmt.Sprintf("table is a literal of %d constant entries", len(ents)), len(ents) > 0, "empty table", pos)
		// precondition of invert at this call site: no name carries two numbers
		byName := map[string][]int64{}
		for _, en := range ents {
			byName[en.Name] = append(byName[en.Name], en.Num)
		}
		var dups []string
		for n, nums := range byName {
			if len(nums) > 1 {
				dups = append(dups, fmt.Sprintf("%s=%v", n, nums))
			}
		}
		sort.Strings(dups)
		g.add(fn, fn+"#pre@invert.injective", "no syscall name has two numbers (precondition of invert: lookups are deterministic and mutual inverses)", len(dups) == 0,
			fmt.Sprintf("%d names with two numbers: %s", len(dups), strings.Join(dups, ", ")), pos)
		// range
		bad := ""
		for _, en := range ents {
			if en.Num < 0 || en.Num >= 1<<30 {
				bad = fmt.Sprintf("%d:%s", en.Num, en.Name)
			}
			if en.Name == "" {
				bad = fmt.Sprintf("%d has an empty name", en.Num)
			}
		}
		g.add(fn, fn+"#ground.range", "every number is in [0, 2^30) and every name is non-empty (validInfo)", bad == "", bad, pos)
		for _, of := range t.oracles {
			om, ok := g.oracle(of)
			if !ok {
				g.add(fn, fn+"#ground.oracle."+of, "oracle file present", false, "missing /verif/oracle/"+of, pos)
				continue
			}
			var mism []string
			compared := 0
			for _, en := range ents {
				if on, ok := om[en.Name]; ok {
					compared++
					if on != en.Num {
						// a name listed twice in the table may match the oracle through its other number
						other := false
						for _, n2 := range byName[en.Name] {
							if n2 == on {
								other = true
							}
						}
						if !other || len(byName[en.Name]) > 1 {
							mism = append(mism, fmt.Sprintf("%s: table %d, oracle %d", en.Name, en.Num, on))
						}
					}
				}
			}
			sort.Strings(mism)
			g.add(fn, fn+"#ground.oracle."+of, fmt.Sprintf("every (name, number) pair agrees with %s wherever it lists the name (%d pairs compared)", of, compared),
				len(mism) == 0 && compared > 50, fmt.Sprintf("compared %d; disagreements: %s", compared, strings.Join(mism, "; ")), pos)
		}
	}
	// the five Info literals use the tables they are named after
	for _, pair := range [][3]string{{"ARM", "syscallsARM", "arm"}, {"AARCH64", "syscallsAARCH64", "aarch64"}, {"I386", "syscalls386", "i386"}, {"X32", "syscallsX32", "x32"}, {"X86_64", "syscallsX86_64", "x86_64"}} {
		init, pos := findVarInit(p, pair[0])
		ok, detail := false, "initializer not of the form &Info{...}"
		if ue, isU := init.(*ast.UnaryExpr); isU {
			if cl, isCL := ue.X.(*ast.CompositeLit); isCL {
				num, names, nm := "", "", ""
				for _, el := range cl.Elts {
					kv := el.(*ast.KeyValueExpr)
					switch kv.Key.(*ast.Ident).Name {
					case "SyscallNumbers":
						num = exprString(kv.Value)
					case "SyscallNames":
						names = exprString(kv.Value)
						if ce, isCall := kv.Value.(*ast.CallExpr); isCall && len(ce.Args) == 1 {
							names = exprString(ce.Fun) + "(" + exprString(ce.Args[0]) + ")"
						}
					case "Name":
						if tv := p.TypesInfo.Types[kv.Value]; tv.Value != nil {
							nm = constant.StringVal(tv.Value)
						}
					}
				}
				ok = num == pair[1] && names == "invert("+pair[1]+")" && nm == pair[2]
				detail = fmt.Sprintf("SyscallNumbers=%s SyscallNames=%s Name=%q", num, names, nm)
			}
		}
		g.add("arch."+pair[0], "arch."+pair[0]+"#ground.info", "Info literal: SyscallNumbers is its table, SyscallNames is invert of the same table, Name as documented", ok, detail, pos)
	}
}

// endianValues: the axiom "nativeEndian is binary.LittleEndian or binary.BigEndian" (what LdHi/LdLo compare it with) is
// checked on the program text: the variable has no initializer, and every assignment to it in non-test files assigns one
// of exactly these two values (binary.NativeEndian, for example, is a third dynamic type: both comparisons are false).
func (g *groundCtx) endianValues() {
	p := g.e.pkgNamed("seccomp")
	fn := "seccomp.nativeEndian"
	if p == nil {
		g.add(fn, fn+"#ground.values", "package seccomp loaded", false, "missing", token.NoPos)
		return
	}
	obj, _ := p.Types.Scope().Lookup("nativeEndian").(*types.Var)
	if obj == nil {
		g.add(fn, fn+"#ground.values", "nativeEndian exists", false, "not found", token.NoPos)
		return
	}
	var bad []string
	assigns := 0
	for _, f := range p.Syntax {
		if strings.HasSuffix(g.e.Fset.Position(f.Pos()).Filename, "_test.go") {
			continue
		}
		ast.Inspect(f, func(n ast.Node) bool {
			switch x := n.(type) {
			case *ast.ValueSpec:
				for i, nm := range x.Names {
					if p.TypesInfo.Defs[nm] == obj && i < len(x.Values) {
						bad = append(bad, "declared with the initializer "+exprString(x.Values[i]))
					}
				}
			case *ast.AssignStmt:
				for i, l := range x.Lhs {
					id, ok := unparen(l).(*ast.Ident)
					if !ok || p.TypesInfo.ObjectOf(id) != obj {
						continue
					}
					assigns++
					if len(x.Rhs) != len(x.Lhs) {
						bad = append(bad, "assigned from a multi-value expression")
						continue
					}
					v := exprString(x.Rhs[i])
					if v != "binary.LittleEndian" && v != "binary.BigEndian" {
						bad = append(bad, "assigned "+v)
					}
				}
			case *ast.UnaryExpr:
				if x.Op == token.AND {
					if id, ok := unparen(x.X).(*ast.Ident); ok && p.TypesInfo.ObjectOf(id) == obj {
						bad = append(bad, "address taken")
					}
				}
			}
			return true
		})
	}
	g.add(fn, fn+"#ground.values", fmt.Sprintf("nativeEndian has no initializer and is only ever assigned binary.LittleEndian or binary.BigEndian (%d assignments): the premise of axiom endian", assigns), len(bad) == 0 && assigns >= 2, strings.Join(bad, "; "), obj.Pos())
}

// endianProbe: the axiom's second half - nativeEndian is LittleEndian exactly on little-endian machines - on the text of
// the probe in init(): a 16-bit constant V is stored through (*uint16)(unsafe.Pointer(&buf[0])) into a [2]byte, and a
// switch over that array assigns the order. On a little-endian machine the array then is {V&0xff, V>>8}, on a
// big-endian one {V>>8, V&0xff} (the definition of the two byte orders - the one fact about the hardware used). The
// obligation: the case with the low byte first assigns binary.LittleEndian and nothing else, the case with the high
// byte first binary.BigEndian, both cases exist, and the two bytes of V differ. If the probe has another shape the
// obligation is not generated (the expected-obligation floor then reports UNDECIDED; the loader family probes the real
// machine) - only a probe that is recognised and maps an order wrongly is a violation. This is the only check that
// sees the big-endian branch: no big-endian machine is available to the witness families.
func (g *groundCtx) endianProbe() {
	p := g.e.pkgNamed("seccomp")
	if p == nil {
		return
	}
	obj, _ := p.Types.Scope().Lookup("nativeEndian").(*types.Var)
	if obj == nil {
		return
	}
	fn := "seccomp.init"
	for _, f := range p.Syntax {
		if strings.HasSuffix(g.e.Fset.Position(f.Pos()).Filename, "_test.go") {
			continue
		}
		for _, d := range f.Decls {
			fd, ok := d.(*ast.FuncDecl)
			if !ok || fd.Recv != nil || fd.Name.Name != "init" || fd.Body == nil {
				continue
			}
			// the probe store: *(*uint16)(unsafe.Pointer(&buf[0])) = V
			var bufObj types.Object
			var v uint64
			found := false
			var sw *ast.SwitchStmt
			for _, st := range fd.Body.List {
				switch x := st.(type) {
				case *ast.AssignStmt:
					if len(x.Lhs) != 1 || len(x.Rhs) != 1 {
						continue
					}
					star, ok := unparen(x.Lhs[0]).(*ast.StarExpr)
					if !ok {
						continue
					}
					conv, ok := unparen(star.X).(*ast.CallExpr)
					if !ok || len(conv.Args) != 1 || exprString(conv.Fun) != "(*uint16)" {
						continue
					}
					up, ok := unparen(conv.Args[0]).(*ast.CallExpr)
					if !ok || len(up.Args) != 1 || exprString(up.Fun) != "unsafe.Pointer" {
						continue
					}
					ad, ok := unparen(up.Args[0]).(*ast.UnaryExpr)
					if !ok || ad.Op != token.AND {
						continue
					}
					ix, ok := unparen(ad.X).(*ast.IndexExpr)
					if !ok {
						continue
					}
					id, ok := unparen(ix.X).(*ast.Ident)
					itv := p.TypesInfo.Types[ix.Index]
					rtv := p.TypesInfo.Types[x.Rhs[0]]
					if !ok || itv.Value == nil || rtv.Value == nil {
						continue
					}
					if i0, _ := constant.Uint64Val(itv.Value); i0 != 0 {
						continue
					}
					at, isArr := p.TypesInfo.TypeOf(id).Underlying().(*types.Array)
					if !isArr || at.Len() != 2 {
						continue
					}
					bufObj = p.TypesInfo.ObjectOf(id)
					v, _ = constant.Uint64Val(rtv.Value)
					found = true
				case *ast.SwitchStmt:
					if id, ok := unparen(x.Tag).(*ast.Ident); ok && found && p.TypesInfo.ObjectOf(id) == bufObj {
						sw = x
					}
				}
			}
			if !found || sw == nil {
				continue
			}
			lo, hi := v&0xff, (v>>8)&0xff
			var bad []string
			seenLE, seenBE := false, false
			for _, cs := range sw.Body.List {
				cc := cs.(*ast.CaseClause)
				want := ""
				for _, e := range cc.List {
					cl, ok := unparen(e).(*ast.CompositeLit)
					if !ok || len(cl.Elts) != 2 {
						bad = append(bad, "case "+exprString(e)+" is not a two-byte literal")
						continue
					}
					a, b := p.TypesInfo.Types[cl.Elts[0]].Value, p.TypesInfo.Types[cl.Elts[1]].Value
					if a == nil || b == nil {
						bad = append(bad, "case "+exprString(e)+" is not constant")
						continue
					}
					av, _ := constant.Uint64Val(a)
					bv, _ := constant.Uint64Val(b)
					switch {
					case av == lo && bv == hi:
						want, seenLE = "binary.LittleEndian", true
					case av == hi && bv == lo:
						want, seenBE = "binary.BigEndian", true
					}
				}
				// what the clause assigns to nativeEndian
				ast.Inspect(cc, func(n ast.Node) bool {
					as, ok := n.(*ast.AssignStmt)
					if !ok {
						return true
					}
					for i, l := range as.Lhs {
						if id, ok := unparen(l).(*ast.Ident); ok && p.TypesInfo.ObjectOf(id) == obj && i < len(as.Rhs) {
							got := exprString(as.Rhs[i])
							if want == "" {
								bad = append(bad, fmt.Sprintf("a case that matches neither byte order of %#x assigns %s", v, got))
							} else if got != want {
								bad = append(bad, fmt.Sprintf("the case for %s assigns %s", want, got))
							}
						}
					}
					return true
				})
			}
			if lo == hi {
				bad = append(bad, fmt.Sprintf("the two bytes of the probe value %#x are equal", v))
			}
			if !seenLE {
				bad = append(bad, "no case for the little-endian layout")
			}
			if !seenBE {
				bad = append(bad, "no case for the big-endian layout")
			}
			g.add(fn, fn+"#ground.endian_probe", fmt.Sprintf("init(): after storing %#x through a *uint16 at &buf[0], the case {%#x, %#x} (low byte first) assigns binary.LittleEndian and the case {%#x, %#x} assigns binary.BigEndian: nativeEndian names the machine's byte order (second half of axiom endian)", v, lo, hi, hi, lo), len(bad) == 0, strings.Join(bad, "; "), fd.Pos())
		}
	}
}

// tablesInjective: in the literal number->name table of each Info, no name carries two numbers, and the Info literal
// uses that table.
func (g *groundCtx) tablesInjective(pairs [][2]string) {
	p := g.e.pkgNamed("arch")
	if p == nil {
		g.add("arch.tables", "arch.tables#ground.load", "package arch is loaded", false, "package arch not found", token.NoPos)
		return
	}
	for _, pr := range pairs {
		fn := "arch." + pr[1]
		ents, pos, err := tableEntries(p, pr[1])
		if err != nil {
			g.add(fn, fn+"#ground.injective", "table is a literal of constant entries", false, err.Error(), pos)
			continue
		}
		byName := map[string]int64{}
		dup := ""
		for _, en := range ents {
			if other, seen := byName[en.Name]; seen && other != en.Num {
				dup = fmt.Sprintf("%s has numbers %d and %d", en.Name, other, en.Num)
			}
			byName[en.Name] = en.Num
		}
		g.add(fn, fn+"#ground.injective", fmt.Sprintf("no syscall name has two numbers in %s (%d entries): distinct numbers have distinct names", pr[1], len(ents)), dup == "" && len(ents) > 0, dup, pos)
		init, ipos := findVarInit(p, pr[0])
		uses := false
		if ue, isU := init.(*ast.UnaryExpr); isU {
			if cl, isCL := ue.X.(*ast.CompositeLit); isCL {
				for _, el := range cl.Elts {
					if kv, isKV := el.(*ast.KeyValueExpr); isKV {
						if id, isId := kv.Key.(*ast.Ident); isId && id.Name == "SyscallNumbers" && exprString(kv.Value) == pr[1] {
							uses = true
						}
					}
				}
			}
		}
		g.add("arch."+pr[0], "arch."+pr[0]+"#ground.uses_table", fmt.Sprintf("arch.%s.SyscallNumbers is %s", pr[0], pr[1]), uses, "Info literal does not use the table", ipos)
	}
}

// inj32: for each Info literal with tables, the word the compiler compares the syscall number with,
// uint32(number | SeccompMask), is different for different names (infoInj of the spec library, evaluated exactly
// on the literals; together with pre@invert.injective: name -> word is injective).
func (g *groundCtx) inj32() {
	p := g.e.pkgNamed("arch")
	if p == nil {
		g.add("arch.tables", "arch.tables#ground.load", "package arch is loaded", false, "package arch not found", token.NoPos)
		return
	}
	for _, pair := range [][2]string{{"ARM", "syscallsARM"}, {"AARCH64", "syscallsAARCH64"}, {"I386", "syscalls386"}, {"X32", "syscallsX32"}, {"X86_64", "syscallsX86_64"}} {
		fn := "arch." + pair[0]
		init, pos := findVarInit(p, pair[0])
		mask, maskOK := int64(0), true
		table := ""
		if ue, isU := init.(*ast.UnaryExpr); isU {
			if cl, isCL := ue.X.(*ast.CompositeLit); isCL {
				for _, el := range cl.Elts {
					kv, isKV := el.(*ast.KeyValueExpr)
					if !isKV {
						maskOK = false
						continue
					}
					switch kv.Key.(*ast.Ident).Name {
					case "SeccompMask":
						tv := p.TypesInfo.Types[kv.Value]
						if tv.Value == nil {
							maskOK = false
						} else if v, exact := constant.Int64Val(tv.Value); exact {
							mask = v
						} else {
							maskOK = false
						}
					case "SyscallNumbers":
						table = exprString(kv.Value)
					}
				}
			} else {
				maskOK = false
			}
		} else {
			maskOK = false
		}
		ents, _, err := tableEntries(p, pair[1])
		if !maskOK || err != nil || table != pair[1] {
			g.add(fn, fn+"#ground.inj32", "Info literal with a constant SeccompMask over its literal table", false, fmt.Sprintf("mask constant: %v, table %q, err %v", maskOK, table, err), pos)
			continue
		}
		byWord := map[uint32]string{}
		bad := ""
		for _, en := range ents {
			w := uint32(en.Num | mask)
			if other, dup := byWord[w]; dup && other != en.Name {
				bad = fmt.Sprintf("%s and %s both compile to the word %#x", other, en.Name, w)
			}
			byWord[w] = en.Name
		}
		g.add(fn, fn+"#ground.inj32", fmt.Sprintf("distinct syscall names compile to distinct 32-bit words uint32(number | %#x) (%d entries; infoInj)", mask, len(ents)), bad == "" && len(ents) > 0, bad, pos)
	}
}

var bpfDefine = regexp.MustCompile(`(?m)^#define\s+(BPF_[A-Z0-9]+)\s+(0x[0-9a-fA-F]+|\d+)`)

// bpfOpcodes: the opcode constants of x/net/bpf (the dependency whose encoder is under contract) equal the macros of the
// kernel's linux/bpf_common.h (vendored), and the seven composed opcodes the spec library's kernel semantics
// (spec/70_kernel.smt2: runSF, rawJumpOp, rawLoadOp) is written with are the ones the header yields.
func (g *groundCtx) bpfOpcodes() {
	data, err := os.ReadFile(filepath.Join(g.e.VerifDir, "oracle", "bpf_common.h"))
	if err != nil {
		g.add("oracle.bpf_common", "oracle.bpf_common#ground.present", "vendored linux/bpf_common.h present", false, err.Error(), token.NoPos)
		return
	}
	h := map[string]int64{}
	for _, m := range bpfDefine.FindAllStringSubmatch(string(data), -1) {
		v, err := strconv.ParseInt(m[2], 0, 64)
		if err == nil {
			h[m[1]] = v
		}
	}
	g.add("oracle.bpf_common", "oracle.bpf_common#ground.parsed", "opcode macros parsed from linux/bpf_common.h", len(h) >= 30, fmt.Sprintf("%d macros", len(h)), token.NoPos)
	bp := g.e.PkgByName["bpf"]
	if bp == nil {
		g.add("bpf.constants", "bpf.constants#ground.load", "package golang.org/x/net/bpf loaded with syntax", false, "not loaded", token.NoPos)
		return
	}
	pairs := [][2]string{{"opClsLoadA", "BPF_LD"}, {"opClsJump", "BPF_JMP"}, {"opClsReturn", "BPF_RET"}, {"opAddrModeAbsolute", "BPF_ABS"},
		{"opLoadWidth4", "BPF_W"}, {"opLoadWidth2", "BPF_H"}, {"opLoadWidth1", "BPF_B"}, {"opOperandConstant", "BPF_K"}, {"opRetSrcConstant", "BPF_K"},
		{"opJumpAlways", "BPF_JA"}, {"opJumpEqual", "BPF_JEQ"}, {"opJumpGT", "BPF_JGT"}, {"opJumpGE", "BPF_JGE"}, {"opJumpSet", "BPF_JSET"}}
	for _, pr := range pairs {
		c, ok := bp.Types.Scope().Lookup(pr[0]).(*types.Const)
		fn := "bpf." + pr[0]
		if !ok {
			g.add(fn, fn+"#ground.value", pr[0]+" is a constant of x/net/bpf", false, "not found", token.NoPos)
			continue
		}
		v, _ := constant.Int64Val(c.Val())
		hv, have := h[pr[1]]
		g.add(fn, fn+"#ground.value", fmt.Sprintf("x/net/bpf %s == %s of linux/bpf_common.h (%#x)", pr[0], pr[1], hv), have && v == hv, fmt.Sprintf("x/net %#x, kernel %#x (found %v)", v, hv, have), c.Pos())
	}
	spec := []struct {
		name string
		val  int64
		of   []string
	}{{"ld [k] (word, absolute)", 32, []string{"BPF_LD", "BPF_W", "BPF_ABS"}}, {"ldh [k]", 40, []string{"BPF_LD", "BPF_H", "BPF_ABS"}}, {"ldb [k]", 48, []string{"BPF_LD", "BPF_B", "BPF_ABS"}},
		{"ja", 5, []string{"BPF_JMP", "BPF_JA"}}, {"ret k", 6, []string{"BPF_RET", "BPF_K"}},
		{"jeq k", 21, []string{"BPF_JMP", "BPF_JEQ", "BPF_K"}}, {"jgt k", 37, []string{"BPF_JMP", "BPF_JGT", "BPF_K"}},
		{"jge k", 53, []string{"BPF_JMP", "BPF_JGE", "BPF_K"}}, {"jset k", 69, []string{"BPF_JMP", "BPF_JSET", "BPF_K"}}}
	for _, sp := range spec {
		var v int64
		ok := true
		for _, m := range sp.of {
			hv, have := h[m]
			ok = ok && have
			v |= hv
		}
		g.add("spec.70_kernel", "spec.70_kernel#ground.opcode."+strings.ReplaceAll(sp.name, " ", "_"), fmt.Sprintf("opcode of '%s' in spec/70_kernel.smt2 (%d) == %s", sp.name, sp.val, strings.Join(sp.of, "|")), ok && v == sp.val, fmt.Sprintf("header gives %d", v), token.NoPos)
	}
	// the spec text really uses these numbers (a guard against editing one side only)
	txt, _ := os.ReadFile(filepath.Join(g.e.VerifDir, "spec", "70_kernel.smt2"))
	for _, lit := range []string{"(= code 6)", "(= code 32)", "(= code 5)", "(= code 21)", "(= code 37)", "(= code 53)", "(= code 69)", "(ite (= size 4) 32 (ite (= size 2) 40 48))"} {
		g.add("spec.70_kernel", "spec.70_kernel#ground.text."+mangle(lit), "spec/70_kernel.smt2 contains "+lit, strings.Contains(string(txt), lit), "missing", token.NoPos)
	}
}

var auditDefine = regexp.MustCompile(`(?m)^#define\s+AUDIT_ARCH_(\w+)\s+\((.*)\)\s*$`)
var emDefine = regexp.MustCompile(`(?m)^#define\s+(EM_\w+)\s+(0x[0-9a-fA-F]+|\d+)`)

func (g *groundCtx) auditArch() {
	p := g.e.pkgNamed("arch")
	ah, err1 := os.ReadFile(filepath.Join(g.e.VerifDir, "oracle", "audit.h"))
	eh, err2 := os.ReadFile(filepath.Join(g.e.VerifDir, "oracle", "elf-em.h"))
	if err1 != nil || err2 != nil || p == nil {
		g.add("arch.auditArch", "arch.auditArch#ground.oracle", "oracle headers present", false, "audit.h / elf-em.h missing", token.NoPos)
		return
	}
	em := map[string]uint64{}
	for _, m := range emDefine.FindAllStringSubmatch(string(eh), -1) {
		v, _ := strconv.ParseUint(m[2], 0, 64)
		em[m[1]] = v
	}
	flags := map[string]uint64{"__AUDIT_ARCH_64BIT": 0x80000000, "__AUDIT_ARCH_LE": 0x40000000, "__AUDIT_ARCH_CONVENTION_MIPS64_N32": 0x20000000}
	oracle := map[string]uint64{}
	for _, m := range auditDefine.FindAllStringSubmatch(string(ah), -1) {
		var v uint64
		ok := true
		for _, part := range strings.Split(m[2], "|") {
			part = strings.TrimSpace(part)
			if x, isEM := em[part]; isEM {
				v |= x
			} else if x, isF := flags[part]; isF {
				v |= x
			} else {
				ok = false
			}
		}
		if ok {
			oracle[m[1]] = v
		}
	}
	// library constant name -> kernel name
	names := map[string]string{"AARCH64": "AARCH64", "ARM": "ARM", "ARMEB": "ARMEB", "I386": "I386", "X86_64": "X86_64", "PPC": "PPC", "PPC64": "PPC64", "PPC64LE": "PPC64LE",
		"S390": "S390", "S390X": "S390X", "MIPS": "MIPS", "MIPSEL": "MIPSEL", "MIPS64": "MIPS64", "MIPS64N32": "MIPS64N32", "MIPSEL64": "MIPSEL64", "MIPSEL64N32": "MIPSEL64N32",
		"SPARC": "SPARC", "SPARC64": "SPARC64", "IA64": "IA64", "PARISC": "PARISC", "PARISC64": "PARISC64", "SH": "SH", "SH64": "SH64", "SHEL": "SHEL", "SHEL64": "SHEL64",
		"CRIS": "CRIS", "FRV": "FRV", "M32R": "M32R", "M68K": "M68K"}
	sc := p.Types.Scope()
	checked := 0
	for _, n := range sc.Names() {
		if !strings.HasPrefix(n, "auditArch") || n == "auditArchNames" {
			continue
		}
		c, ok := sc.Lookup(n).(*types.Const)
		if !ok {
			continue
		}
		kn := names[strings.TrimPrefix(n, "auditArch")]
		ov, have := oracle[kn]
		if !have {
			continue
		}
		v, _ := constant.Uint64Val(c.Val())
		checked++
		g.add("arch."+n, "arch."+n+"#ground.audit", fmt.Sprintf("%s == AUDIT_ARCH_%s of linux/audit.h (%#x)", n, kn, ov), v == ov, fmt.Sprintf("library %#x, kernel %#x", v, ov), c.Pos())
	}
	g.add("arch.auditArch", "arch.auditArch#ground.count", "audit architecture constants were compared with the kernel header", checked >= 16, fmt.Sprintf("only %d compared", checked), token.NoPos)
	// the five Info literals carry the constant of their architecture
	for _, pair := range [][2]string{{"ARM", "auditArchARM"}, {"AARCH64", "auditArchAARCH64"}, {"I386", "auditArchI386"}, {"X32", "auditArchX86_64"}, {"X86_64", "auditArchX86_64"}} {
		init, pos := findVarInit(p, pair[0])
		id := ""
		if ue, isU := init.(*ast.UnaryExpr); isU {
			if cl, isCL := ue.X.(*ast.CompositeLit); isCL {
				for _, el := range cl.Elts {
					kv := el.(*ast.KeyValueExpr)
					if kv.Key.(*ast.Ident).Name == "ID" {
						id = exprString(kv.Value)
					}
				}
			}
		}
		g.add("arch."+pair[0], "arch."+pair[0]+"#ground.id", "Info.ID is "+pair[1], id == pair[1], "ID is "+id, pos)
	}
	// x32 mask
	if c, ok := sc.Lookup("x32SyscallMask").(*types.Const); ok {
		v, _ := constant.Uint64Val(c.Val())
		g.add("arch.x32SyscallMask", "arch.x32SyscallMask#ground.value", "x32SyscallMask == __X32_SYSCALL_BIT (0x40000000)", v == 0x40000000, fmt.Sprintf("%#x", v), c.Pos())
	}
}

func (g *groundCtx) aliases() {
	p := g.e.pkgNamed("arch")
	if p == nil {
		return
	}
	init, pos := findVarInit(p, "arches")
	cl, ok := init.(*ast.CompositeLit)
	if !ok {
		g.add("arch.arches", "arch.arches#ground.literal", "arches is a map literal", false, "not a literal", pos)
		return
	}
	m := map[string]string{}
	for _, el := range cl.Elts {
		kv := el.(*ast.KeyValueExpr)
		if tv := p.TypesInfo.Types[kv.Key]; tv.Value != nil {
			m[constant.StringVal(tv.Value)] = exprString(kv.Value)
		}
	}
	want := map[string]string{"amd64": "X86_64", "x86_64": "X86_64", "386": "I386", "i386": "I386", "arm64": "AARCH64", "aarch64": "AARCH64", "arm": "ARM", "x32": "X32"}
	for _, k := range sortedKeys(want) {
		g.add("arch.arches", "arch.arches#ground.alias."+k, fmt.Sprintf("arches[%q] is %s", k, want[k]), m[k] == want[k], fmt.Sprintf("arches[%q] is %s", k, m[k]), pos)
	}
	lower := true
	for k := range m {
		if strings.ToLower(k) != k {
			lower = false
		}
	}
	g.add("arch.arches", "arch.arches#ground.lowercase", "every key of arches is lower case (GetInfo folds the requested name with ToLower)", lower, "upper-case key present", pos)
	// every other entry refers to an Info without tables, hence GetInfo reports it unsupported (contract of GetInfo)
	for _, k := range sortedKeys(m) {
		if _, isT := want[k]; isT {
			continue
		}
		vinit, vpos := findVarInit(p, m[k])
		tableless := false
		if ue, isU := vinit.(*ast.UnaryExpr); isU {
			if icl, isCL := ue.X.(*ast.CompositeLit); isCL {
				tableless = true
				for _, el := range icl.Elts {
					if kv, ok := el.(*ast.KeyValueExpr); ok {
						if id, ok := kv.Key.(*ast.Ident); ok && (id.Name == "SyscallNames" || id.Name == "SyscallNumbers") {
							tableless = false
						}
					}
				}
			}
		}
		g.add("arch.arches", "arch.arches#ground.unsupported."+k, fmt.Sprintf("arches[%q] (%s) has no syscall tables, so GetInfo returns the unsupported-architecture error (by its contract)", k, m[k]), tableless, "has tables", vpos)
	}
}

// ---- C01/C02: the x/net JumpTest numbering the spec library assumes ----

func (g *groundCtx) jumpTests() {
	bp := g.e.findPkg("golang.org/x/net/bpf")
	if bp == nil {
		return
	}
	want := []string{"JumpEqual", "JumpNotEqual", "JumpGreaterThan", "JumpLessThan", "JumpGreaterOrEqual", "JumpLessOrEqual", "JumpBitsSet", "JumpBitsNotSet"}
	for i, n := range want {
		c, ok := bp.Scope().Lookup(n).(*types.Const)
		v := int64(-1)
		if ok {
			v, _ = constant.Int64Val(c.Val())
		}
		g.add("bpf.JumpTest", "bpf."+n+"#ground.value", fmt.Sprintf("bpf.%s == %d (numbering assumed by jtest in spec/10_cbpf.smt2)", n, i), v == int64(i), fmt.Sprintf("value %d", v), token.NoPos)
	}
}

// ---- C19: constants and stubs across build targets ----

// quick: the Linux architectures that matter (four with tables, one without, and two of the mips family - the only
// Linux ports whose errno numbering differs from asm-generic: ENOSYS is 89 there) and one target of every other
// operating system of `go tool dist list` (build constraints usually select files per operating system); thorough: all.
var quickTargets = []string{"linux/amd64", "linux/386", "linux/arm", "linux/arm64", "linux/riscv64", "linux/mips", "linux/mips64le", "darwin/arm64", "windows/amd64",
	"freebsd/amd64", "openbsd/amd64", "netbsd/arm64", "dragonfly/amd64", "solaris/amd64", "illumos/amd64", "aix/ppc64", "plan9/amd64",
	"js/wasm", "wasip1/wasm", "android/arm64", "ios/arm64"}

func (g *groundCtx) uapi() map[string]uint64 {
	read := func(f string) string {
		d, _ := os.ReadFile(filepath.Join(g.e.VerifDir, "oracle", f))
		return string(d)
	}
	m := map[string]uint64{}
	hexU := regexp.MustCompile(`(?m)^#define\s+(SECCOMP_RET_\w+)\s+(0x[0-9a-fA-F]+)U`)
	for _, x := range hexU.FindAllStringSubmatch(read("seccomp.h"), -1) {
		v, _ := strconv.ParseUint(x[2], 0, 64)
		m[x[1]] = v
	}
	dec := regexp.MustCompile(`(?m)^#define\s+(SECCOMP_SET_MODE_\w+|PR_SET_NO_NEW_PRIVS|EPERM|ENOSYS)\s+(\d+)`)
	for _, f := range []string{"seccomp.h", "prctl.h", "errno-base.h", "errno.h"} {
		for _, x := range dec.FindAllStringSubmatch(read(f), -1) {
			v, _ := strconv.ParseUint(x[2], 10, 64)
			m[x[1]] = v
		}
	}
	shl := regexp.MustCompile(`(?m)^#define\s+(SECCOMP_FILTER_FLAG_\w+)\s+\(1UL << (\d+)\)`)
	for _, x := range shl.FindAllStringSubmatch(read("seccomp.h"), -1) {
		n, _ := strconv.ParseUint(x[2], 10, 64)
		m[x[1]] = 1 << n
	}
	return m
}

// library constant (package seccomp) -> UAPI name
var seccompConsts = map[string]string{
	"ActionKillThread": "SECCOMP_RET_KILL_THREAD", "ActionKillProcess": "SECCOMP_RET_KILL_PROCESS", "ActionTrap": "SECCOMP_RET_TRAP",
	"ActionErrno": "SECCOMP_RET_ERRNO", "ActionTrace": "SECCOMP_RET_TRACE", "ActionLog": "SECCOMP_RET_LOG", "ActionAllow": "SECCOMP_RET_ALLOW",
	"ActionUserNotify": "SECCOMP_RET_USER_NOTIF", "FilterFlagTSync": "SECCOMP_FILTER_FLAG_TSYNC", "FilterFlagLog": "SECCOMP_FILTER_FLAG_LOG",
	"errnoEPERM": "EPERM", "errnoENOSYS": "ENOSYS", "prSetNoNewPrivs": "PR_SET_NO_NEW_PRIVS",
	"seccompSetModeStrict": "SECCOMP_SET_MODE_STRICT", "seccompSetModeFilter": "SECCOMP_SET_MODE_FILTER",
}

func (g *groundCtx) constantsAllTargets(tier string) {
	uapi := g.uapi()
	g.add("oracle.uapi", "oracle.uapi#ground.parsed", "UAPI oracle values parsed from the vendored headers", len(uapi) >= 15, fmt.Sprintf("%d values", len(uapi)), token.NoPos)
	targets := quickTargets
	if tier == "thorough" {
		if out, err := exec.Command("go", "tool", "dist", "list").Output(); err == nil {
			targets = strings.Fields(string(out))
		}
	}
	// targets that type-checked on the unchanged tree
	expected := map[string]bool{}
	if data, err := os.ReadFile(filepath.Join(g.e.VerifDir, "expected_targets.json")); err == nil {
		var l []string
		json.Unmarshal(data, &l)
		for _, t := range l {
			expected[t] = true
		}
	}
	type res struct {
		target string
		eng    *Engine
		err    error
	}
	results := make([]res, len(targets))
	sem := make(chan struct{}, 8)
	var wg sync.WaitGroup
	for i, t := range targets {
		wg.Add(1)
		go func(i int, t string) {
			defer wg.Done()
			sem <- struct{}{}
			defer func() { <-sem }()
			parts := strings.SplitN(t, "/", 2)
			en, err := LoadEngine(g.e.RepoDir, g.e.VerifDir, parts[0], parts[1], []string{"verif"})
			results[i] = res{t, en, err}
		}(i, t)
	}
	wg.Wait()
	// reference for the target-independence of constant expressions: linux/amd64
	var refConsts map[string]string
	for _, r := range results {
		if r.target == "linux/amd64" && r.err == nil {
			refConsts = constExprValues(r.eng)
		}
	}
	built := 0
	for _, r := range results {
		if r.err == nil && refConsts != nil && r.target != "linux/amd64" {
			// The compiler's source files (everything in packages seccomp and arch that this target shares with linux/amd64;
			// the loader's own file is selected by build constraint and talks to one kernel ABI only): every constant
			// expression - declared constants, unsafe.Sizeof/Offsetof, conversions of literals - has the value it has on
			// linux/amd64. Together with the absence of int-width dependent arithmetic in the contracts (all instruction
			// fields are uint32/uint8) this is what makes the compiled program a function of the policy and the table only.
			cur := constExprValues(r.eng)
			var diffs []string
			n := 0
			for _, k := range sortedKeys(cur) {
				ref, shared := refConsts[k]
				if !shared {
					continue
				}
				n++
				if ref != cur[k] && strings.HasPrefix(r.target, "linux/mips") && mipsENOSYS(cur[k], ref) {
					// the mips ports number ENOSYS 89 (arch/mips/include/uapi/asm/errno.h; see ground.const.errnoENOSYS):
					// the first sentence of C19 wants the kernel's value there. No program can contain it: mips has no
					// syscall table, so compilation fails with the unsupported-architecture error (ground.unsupported).
					continue
				}
				if ref != cur[k] && len(diffs) < 6 {
					diffs = append(diffs, fmt.Sprintf("%s: %s here, %s on linux/amd64", k, cur[k], ref))
				}
			}
			fn := "target." + r.target
			g.add(fn, fn+"#ground.constexprs", fmt.Sprintf("all %d constant expressions of the compiler's files shared with linux/amd64 have the same value on %s", n, r.target),
				len(diffs) == 0 && n > 0, strings.Join(diffs, "; "), token.NoPos)
		}
	}
	for _, r := range results {
		fn := "target." + r.target
		if r.err != nil {
			if expected[r.target] || len(expected) == 0 && strings.HasPrefix(r.target, "linux/") {
				g.add(fn, fn+"#ground.builds", "module type-checks for "+r.target+" (it did on the unchanged tree)", false, r.err.Error(), token.NoPos)
			} else {
				g.notes = append(g.notes, "target "+r.target+" does not type-check (not in expected_targets.json): skipped")
			}
			continue
		}
		built++
		g.targetChecks(r.target, r.eng, uapi)
	}
	g.add("targets", "targets#ground.count", fmt.Sprintf("build targets examined: %d of %d type-check", built, len(targets)), built >= 5, "too few targets built", token.NoPos)
}

// mipsENOSYS: the two values differ exactly by ENOSYS being 89 instead of 38 in the low 16 bits (the return data of an
// errno action) - the only difference the kernel's mips errno table makes to the library's constant expressions.
func mipsENOSYS(cur, ref string) bool {
	c, err1 := strconv.ParseUint(cur, 0, 64)
	r, err2 := strconv.ParseUint(ref, 0, 64)
	return err1 == nil && err2 == nil && c&0xffff == 89 && r&0xffff == 38 && c>>16 == r>>16
}

func (g *groundCtx) targetChecks(target string, en *Engine, uapi map[string]uint64) {
	fn := "target." + target
	sp := en.PkgByName["seccomp"]
	if sp == nil {
		g.add(fn, fn+"#ground.pkg", "package seccomp loaded for "+target, false, "missing", token.NoPos)
		return
	}
	sc := sp.Types.Scope()
	for _, name := range sortedKeys(seccompConsts) {
		c, ok := sc.Lookup(name).(*types.Const)
		if !ok {
			g.add(fn, fn+"#ground.const."+name, name+" is a constant", false, "not found", token.NoPos)
			continue
		}
		v, _ := constant.Uint64Val(c.Val())
		want, have := uapi[seccompConsts[name]]
		if name == "errnoENOSYS" && strings.HasPrefix(target, "linux/mips") {
			// arch/mips/include/uapi/asm/errno.h defines ENOSYS as 89 (the header is not part of this image; value recorded in
			// /verif/oracle/PROVENANCE.md). No program can contain it: mips has no syscall table, GetInfo("") fails there.
			want = 89
		}
		g.add(fn, fn+"#ground.const."+name, fmt.Sprintf("%s == %s (%#x) on %s", name, seccompConsts[name], want, target), have && v == want, fmt.Sprintf("library %#x, UAPI %#x", v, want), c.Pos())
	}
	// arch: audit ids are target independent constants (checked in C12); here: the x32 mask and the ids used by the prologue
	if ap := en.PkgByName["arch"]; ap != nil {
		if c, ok := ap.Types.Scope().Lookup("auditArchX86_64").(*types.Const); ok {
			v, _ := constant.Uint64Val(c.Val())
			g.add(fn, fn+"#ground.const.auditArchX86_64", "auditArchX86_64 == 0xc000003e on "+target, v == 0xc000003e, fmt.Sprintf("%#x", v), c.Pos())
		}
	}
	goos := strings.SplitN(target, "/", 2)[0]
	goarch := strings.SplitN(target, "/", 2)[1]
	if goos != "linux" && goos != "android" { // GOOS=android satisfies the linux build constraint
		// loader stubs: report unsupported, perform no call at all
		for _, fname := range []string{"Supported", "SetNoNewPrivs", "LoadFilter"} {
			fi := en.Funcs["seccomp."+fname]
			if fi == nil {
				g.add(fn, fn+"#ground.stub."+fname, fname+" exists on "+target, false, "missing", token.NoPos)
				continue
			}
			calls := 0
			ast.Inspect(fi.Decl.Body, func(n ast.Node) bool {
				switch n.(type) {
				case *ast.CallExpr, *ast.GoStmt, *ast.DeferStmt:
					calls++
				}
				return true
			})
			g.add(fn, fn+"#ground.stub."+fname+".nocalls", fname+" stub on "+target+" contains no call expression (hence performs no system call)", calls == 0, fmt.Sprintf("%d calls", calls), fi.Decl.Pos())
			if fname == "Supported" {
				ok := false
				if len(fi.Decl.Body.List) == 1 {
					if rs, isR := fi.Decl.Body.List[0].(*ast.ReturnStmt); isR && len(rs.Results) == 1 {
						if tv := sp.TypesInfo.Types[rs.Results[0]]; tv.Value != nil && tv.Value.Kind() == constant.Bool && !constant.BoolVal(tv.Value) {
							ok = true
						}
					}
				}
				g.add(fn, fn+"#ground.stub.Supported.false", "Supported() is 'return false' on "+target, ok, "body is not a single 'return false'", fi.Decl.Pos())
			}
		}
	}
	// targets without syscall tables: GetInfo("") reports unsupported (by GetInfo's contract @unsupported, key = GOARCH)
	if ap := en.PkgByName["arch"]; ap != nil {
		init, pos := findVarInit(ap, "arches")
		tabled := map[string]bool{}
		present := map[string]string{}
		if cl, ok := init.(*ast.CompositeLit); ok {
			for _, el := range cl.Elts {
				kv := el.(*ast.KeyValueExpr)
				if tv := ap.TypesInfo.Types[kv.Key]; tv.Value != nil {
					k := constant.StringVal(tv.Value)
					present[k] = exprString(kv.Value)
					vinit, _ := findVarInit(ap, exprString(kv.Value))
					if ue, isU := vinit.(*ast.UnaryExpr); isU {
						if icl, isCL := ue.X.(*ast.CompositeLit); isCL {
							for _, f := range icl.Elts {
								if fkv, ok := f.(*ast.KeyValueExpr); ok {
									if id, ok := fkv.Key.(*ast.Ident); ok && id.Name == "SyscallNames" {
										tabled[k] = true
									}
								}
							}
						}
					}
				}
			}
		}
		wantTables := map[string]bool{"amd64": true, "386": true, "arm": true, "arm64": true}[goarch]
		g.add(fn, fn+"#ground.goarch", fmt.Sprintf("GOARCH %s: arches has tables iff the architecture is one of amd64/386/arm/arm64 (else GetInfo(\"\") fails with the unsupported-architecture error and Policy.Assemble propagates it)", goarch),
			tabled[goarch] == wantTables, fmt.Sprintf("arches[%q]=%s tables=%v", goarch, present[goarch], tabled[goarch]), pos)
	}
}

// ---- C14: struct tags and the action name table ----

func (g *groundCtx) tags() {
	sp := g.e.pkgNamed("seccomp")
	if sp == nil {
		return
	}
	for _, tn := range []string{"Policy", "SyscallGroup", "NameWithConditions", "Condition"} {
		obj := sp.Types.Scope().Lookup(tn)
		if obj == nil {
			g.add("seccomp."+tn, "seccomp."+tn+"#ground.tags", "type exists", false, "missing", token.NoPos)
			continue
		}
		st, ok := obj.Type().Underlying().(*types.Struct)
		if !ok {
			continue
		}
		for i := 0; i < st.NumFields(); i++ {
			f := st.Field(i)
			if !f.Exported() {
				continue
			}
			tag := reflect.StructTag(st.Tag(i))
			key := func(k string) string { return strings.Split(tag.Get(k), ",")[0] }
			c, y, j := key("config"), key("yaml"), key("json")
			ok := c != "" && c == y && c == j
			g.add("seccomp."+tn, fmt.Sprintf("seccomp.%s.%s#ground.tags", tn, f.Name()),
				fmt.Sprintf("%s.%s: the config, yaml and json keys coincide (a value marshalled to YAML/JSON is read back into the same field by the config loader)", tn, f.Name()),
				ok, fmt.Sprintf("config:%q yaml:%q json:%q", c, y, j), f.Pos())
		}
	}
}

func (g *groundCtx) actionTable() {
	sp := g.e.pkgNamed("seccomp")
	if sp == nil {
		return
	}
	uapi := g.uapi()
	init, pos := findVarInit(sp, "actionNames")
	cl, ok := init.(*ast.CompositeLit)
	if !ok {
		g.add("seccomp.actionNames", "seccomp.actionNames#ground.literal", "actionNames is a map literal", false, "not a literal", pos)
		return
	}
	got := map[string]uint64{}
	for _, el := range cl.Elts {
		kv := el.(*ast.KeyValueExpr)
		ktv, vtv := sp.TypesInfo.Types[kv.Key], sp.TypesInfo.Types[kv.Value]
		if ktv.Value == nil || vtv.Value == nil {
			continue
		}
		v, _ := constant.Uint64Val(ktv.Value)
		got[constant.StringVal(vtv.Value)] = v
	}
	want := map[string]string{"kill_thread": "SECCOMP_RET_KILL_THREAD", "kill_process": "SECCOMP_RET_KILL_PROCESS", "trap": "SECCOMP_RET_TRAP",
		"errno": "SECCOMP_RET_ERRNO", "trace": "SECCOMP_RET_TRACE", "log": "SECCOMP_RET_LOG", "allow": "SECCOMP_RET_ALLOW"}
	for _, n := range sortedKeys(want) {
		v, have := got[n]
		g.add("seccomp.actionNames", "seccomp.actionNames#ground.name."+n, fmt.Sprintf("action name %q denotes %s (%#x)", n, want[n], uapi[want[n]]), have && v == uapi[want[n]], fmt.Sprintf("have=%v value %#x", have, v), pos)
	}
	g.add("seccomp.actionNames", "seccomp.actionNames#ground.exactly7", "actionNames has exactly the seven documented names", len(got) == 7 && len(cl.Elts) == 7, fmt.Sprintf("%d entries", len(cl.Elts)), pos)
	// Operations: the eight documented names
	oinit, opos := findVarInit(sp, "Operations")
	var ops []string
	if ocl, ok := oinit.(*ast.CompositeLit); ok {
		for _, el := range ocl.Elts {
			if tv := sp.TypesInfo.Types[el]; tv.Value != nil {
				ops = append(ops, constant.StringVal(tv.Value))
			}
		}
	}
	wantOps := []string{"Equal", "NotEqual", "GreaterThan", "LessThan", "GreaterOrEqual", "LessOrEqual", "BitsSet", "BitsNotSet"}
	g.add("seccomp.Operations", "seccomp.Operations#ground.names", "Operations lists exactly the eight documented operation names", strings.Join(ops, ",") == strings.Join(wantOps, ","), strings.Join(ops, ","), opos)
	low := map[string]bool{}
	for _, o := range ops {
		low[strings.ToLower(o)] = true
	}
	g.add("seccomp.Operations", "seccomp.Operations#ground.distinct_lower", "the operation names stay pairwise distinct under case folding", len(low) == len(ops), "collision", opos)
}

// ---- C13: package-level data read on the compile / lookup / text paths is never written after init ----

func (g *groundCtx) globalsImmutable(only [][2]string) {
	type gv struct{ pkg, name string }
	vars := []gv{{"seccomp", "nativeEndian"}, {"seccomp", "actionNames"}, {"seccomp", "filterFlagNames"}, {"seccomp", "filterFlags"}, {"seccomp", "Operations"},
		{"arch", "arches"}, {"arch", "ARM"}, {"arch", "AARCH64"}, {"arch", "I386"}, {"arch", "X32"}, {"arch", "X86_64"},
		{"arch", "syscallsARM"}, {"arch", "syscallsAARCH64"}, {"arch", "syscalls386"}, {"arch", "syscallsX32"}, {"arch", "syscallsX86_64"}, {"arch", "auditArchNames"}}
	if only != nil {
		vars = nil
		for _, o := range only {
			vars = append(vars, gv{o[0], o[1]})
		}
	}
	for _, v := range vars {
		p := g.e.pkgNamed(v.pkg)
		if p == nil {
			continue
		}
		obj, ok := p.Types.Scope().Lookup(v.name).(*types.Var)
		fn := v.pkg + "." + v.name
		if !ok {
			g.add(fn, fn+"#ground.immutable", "package-level variable exists", false, "not found", token.NoPos)
			continue
		}
		g.e.isMutableGlobal(obj) // fills the table
		var bad []string
		for _, w := range g.e.writtenGlobals[obj] {
			if strings.HasSuffix(w, " in init") {
				continue // writes in init() happen before any use (Go memory model: package initialisation)
			}
			bad = append(bad, w)
		}
		g.add(fn, fn+"#ground.immutable", v.pkg+"."+v.name+" is never assigned, mutated or address-taken outside init() in the module's non-test files (read-only shared data: no race, no history dependence)", len(bad) == 0, strings.Join(bad, "; "), obj.Pos())
	}
}

// tablesFrozen (C12): the number->name tables, the Info values built from them (their name->number maps are computed by
// package-level initialisers, i.e. before every init() function) and the alias map are written nowhere in the module's
// non-test files - not even in an init(): a table pruned or patched after its inverse was built no longer is its inverse.
func (g *groundCtx) tablesFrozen() {
	p := g.e.pkgNamed("arch")
	if p == nil {
		return
	}
	for _, name := range []string{"arches", "ARM", "AARCH64", "I386", "X32", "X86_64", "syscallsARM", "syscallsAARCH64", "syscalls386", "syscallsX32", "syscallsX86_64"} {
		obj, ok := p.Types.Scope().Lookup(name).(*types.Var)
		fn := "arch." + name
		if !ok {
			continue // existence is the matter of ground.tables
		}
		g.e.isMutableGlobal(obj) // fills the table
		g.add(fn, fn+"#ground.frozen", "arch."+name+" is never assigned, mutated (delete, copy, element store) or address-taken after its initialiser, init() functions included: the inverse tables computed at initialisation stay inverses", len(g.e.writtenGlobals[obj]) == 0, strings.Join(g.e.writtenGlobals[obj], "; "), obj.Pos())
	}
}

// constExprValues: value of every constant expression in the non-loader files of packages seccomp and arch, keyed by
// file (relative), line, column and source text.
func constExprValues(en *Engine) map[string]string {
	out := map[string]string{}
	for _, pn := range []string{"seccomp", "arch"} {
		p := en.PkgByName[pn]
		if p == nil {
			continue
		}
		for e, tv := range p.TypesInfo.Types {
			if tv.Value == nil {
				continue
			}
			pos := en.Fset.Position(e.Pos())
			base := filepath.Base(pos.Filename)
			if strings.HasPrefix(base, "seccomp_") || strings.HasSuffix(base, "_test.go") || strings.Contains(base, "verif_contracts") {
				continue // loader (one file per operating system), tests, contract files
			}
			if tv.Value.Kind() == constant.String && len(constant.StringVal(tv.Value)) > 40 {
				continue
			}
			key := fmt.Sprintf("%s/%s:%d:%d", pn, base, pos.Line, pos.Column)
			if _, isLit := e.(*ast.BasicLit); isLit {
				continue
			}
			if pn == "arch" && exprString(e) == "runtime.GOARCH" {
				continue // GetInfo(""): the default table is the host's - the one place where the target may matter (C12/C19: `for a given table`)
			}
			out[key+" "+exprString(e)] = tv.Value.ExactString()
		}
	}
	return out
}

// ---- C18: the template of the generated Go file ----

// codeTemplate: the constant defaultTemplate (cmd/seccomp-profiler) lists every element of .SyscallNames exactly once,
// in order, as a quoted string inside `Names: []string{ ... }` of an allow group under default action errno - what
// writeGoTemplate's contract (the list handed to Execute is main's list) needs to become a statement about the file.
func (g *groundCtx) codeTemplate() {
	fn := "main:seccomp-profiler.defaultTemplate"
	p := g.e.PkgByName["main:seccomp-profiler"]
	if p == nil {
		g.add(fn, fn+"#ground.template", "package cmd/seccomp-profiler loaded", false, "missing", token.NoPos)
		return
	}
	c, ok := p.Types.Scope().Lookup("defaultTemplate").(*types.Const)
	if !ok || c.Val().Kind() != constant.String {
		g.add(fn, fn+"#ground.template", "defaultTemplate is a string constant", false, "not found", token.NoPos)
		return
	}
	text := constant.StringVal(c.Val())
	trees, err := tparse.Parse("profile", text, "{{", "}}", tmplBuiltins())
	if err != nil || trees["profile"] == nil {
		g.add(fn, fn+"#ground.template", "defaultTemplate parses", false, fmt.Sprint(err), c.Pos())
		return
	}
	var ranges []*tparse.RangeNode
	var walk func(n tparse.Node)
	walk = func(n tparse.Node) {
		switch x := n.(type) {
		case *tparse.ListNode:
			if x != nil {
				for _, m := range x.Nodes {
					walk(m)
				}
			}
		case *tparse.RangeNode:
			ranges = append(ranges, x)
			walk(x.List)
			walk(x.ElseList)
		case *tparse.IfNode:
			walk(x.List)
			walk(x.ElseList)
		case *tparse.WithNode:
			walk(x.List)
			walk(x.ElseList)
		}
	}
	root := trees["profile"].Root
	walk(root)
	okRange, detail := false, ""
	if len(ranges) != 1 {
		detail = fmt.Sprintf("%d range actions", len(ranges))
	} else {
		r := ranges[0]
		pipe := strings.ReplaceAll(r.Pipe.String(), " ", "")
		body := ""
		if r.List != nil {
			body = r.List.String()
		}
		// `$v := .SyscallNames` (one variable: the element) and a body that is exactly one quoted use of it plus a comma
		oneVar := len(r.Pipe.Decl) == 1 && strings.HasSuffix(pipe, ":=.SyscallNames")
		v := ""
		if oneVar {
			v = r.Pipe.Decl[0].Ident[0]
		}
		norm := strings.Join(strings.Fields(body), "")
		want := "\"{{" + v + "}}\","
		okRange = oneVar && norm == want && r.ElseList == nil
		detail = fmt.Sprintf("range %s body %q", r.Pipe.String(), norm)
	}
	g.add(fn, fn+"#ground.template.range", "defaultTemplate has exactly one range action, over .SyscallNames, whose body is the quoted element and a comma (every name once, in order)", okRange, detail, c.Pos())
	// the range sits directly inside the Names list of the allow group of an errno-by-default policy
	flat := strings.Join(strings.Fields(text), " ")
	i := strings.Index(flat, "{{- range")
	ctx := ""
	if i >= 0 {
		ctx = flat[:i]
	}
	okCtx := i >= 0 && strings.HasSuffix(strings.TrimSpace(ctx), "Names: []string{") && strings.Contains(ctx, "DefaultAction: seccomp.ActionErrno,") &&
		strings.Count(ctx, "Action: seccomp.ActionAllow,") == 1 && strings.Count(flat, "Names:") == 1 && strings.Count(flat, "Action:") == 2 && !strings.Contains(flat, "NamesWithCondtions")
	g.add(fn, fn+"#ground.template.context", "the range is the content of `Names: []string{` of the only group (action allow) of a policy with default action errno", okCtx, "context: "+ctx[max(0, len(ctx)-160):], c.Pos())
}

func tmplBuiltins() map[string]interface{} {
	m := map[string]interface{}{}
	for _, n := range []string{"and", "call", "html", "index", "slice", "js", "len", "not", "or", "print", "printf", "println", "urlquery", "eq", "ge", "gt", "le", "lt", "ne"} {
		m[n] = fmt.Sprint
	}
	return m
}
