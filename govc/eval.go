package main

// Expression evaluation: Go expressions of the code (typed AST) and contract
// expressions (Go syntax, resolved by name) to SMT terms.

import (
	"fmt"
	"go/ast"
	"go/constant"
	"go/token"
	"go/types"
	"math/big"
	"strconv"
	"strings"

	"golang.org/x/tools/go/packages"
)

type unsupportedErr struct{ msg string }

type Env struct {
	c     *FnCtx
	st    *State
	code  bool
	names map[string]Val
	old   *Env
	pkg   *packages.Package
	bound map[string]Term
	nosafe bool // do not emit safety obligations (contract mode, or re-evaluation)
	infoOverride *types.Info
	foreign      bool // evaluating another function's or a lemma's clauses: the current function's lets/binders are not in scope
	globalInit   bool // evaluating a package-level initializer: calls yield unconstrained values
	recvOverride *Val // interface dispatch: the (unboxed) receiver of the next callSpec, instead of evaluating the receiver expression
}

func (env *Env) fail(pos token.Pos, format string, args ...interface{}) {
	msg := fmt.Sprintf(format, args...)
	if pos.IsValid() && env.code {
		p := env.c.eng.Fset.Position(pos)
		msg = fmt.Sprintf("%s:%d: %s", shortPath(p.Filename), p.Line, msg)
	}
	panic(unsupportedErr{msg})
}

func (env *Env) ss() *Sorts { return env.c.eng.Sorts }

func (env *Env) info() *types.Info {
	if env.infoOverride != nil {
		return env.infoOverride
	}
	return env.c.info
}

func (env *Env) safe(kind string, pos token.Pos, goal string, text string) {
	if !env.code || env.nosafe || !env.c.safety {
		return
	}
	c := env.c
	save := c.curPos
	c.curPos = pos
	key := kind
	c.siteOrd[fmt.Sprintf("%s@%d", kind, pos)]++ // only to keep the map used
	label := c.siteLabel(kind, pos)
	c.oblige(env.st, kind, label, goal, c.spec.Props, text)
	_ = key
	c.curPos = save
}

// siteLabel gives a stable ordinal per (kind, syntactic site) in source order.
func (c *FnCtx) siteLabel(kind string, pos token.Pos) string {
	if c.oblSeq == nil {
		c.oblSeq = map[string]int{}
	}
	k := fmt.Sprintf("%s|%d", kind, pos)
	if n, ok := c.oblSeq[k]; ok {
		return fmt.Sprintf("@%d", n)
	}
	// ordinal = number of distinct sites of this kind with smaller position... computed lazily: use line-independent counter
	// by registering sites in the pre-pass order (see prepass); fall back to first-seen order.
	cnt := 0
	for kk := range c.oblSeq {
		if strings.HasPrefix(kk, kind+"|") {
			cnt++
		}
	}
	c.oblSeq[k] = cnt + 1
	return fmt.Sprintf("@%d", cnt+1)
}

func (env *Env) constVal(v constant.Value, t types.Type) Val {
	sort := SInt
	if t != nil {
		sort = env.ss().SortOf(t)
	}
	switch v.Kind() {
	case constant.Bool:
		return Val{T: tBool(constant.BoolVal(v)), GoT: t, Const: v}
	case constant.String:
		return Val{T: tStr(constant.StringVal(v)), GoT: t, Const: v}
	case constant.Int:
		return Val{T: intLit(v, sort), GoT: t, Const: v}
	case constant.Float:
		if i := constant.ToInt(v); i.Kind() == constant.Int {
			return Val{T: intLit(i, sort), GoT: t, Const: i}
		}
	}
	env.fail(token.NoPos, "unsupported constant %v", v)
	return Val{}
}

func intLit(v constant.Value, sort string) Term {
	bi, _ := new(big.Int).SetString(v.ExactString(), 10)
	if bi == nil {
		bi = big.NewInt(0)
	}
	switch sort {
	case SBV32:
		m := new(big.Int).And(bi, big.NewInt(0xffffffff))
		return tBV(m.Uint64(), 32)
	case SBV64:
		m := new(big.Int).And(bi, new(big.Int).SetUint64(^uint64(0)))
		return tBV(m.Uint64(), 64)
	}
	return tIntS(bi.String())
}

// coerce adapts an untyped constant to the wanted sort.
func (env *Env) coerce(v Val, sort string) Val {
	if v.T.Sort == sort {
		return v
	}
	if v.Const != nil && v.Const.Kind() == constant.Int && (sort == SInt || isBV(sort)) {
		return Val{T: intLit(v.Const, sort), Const: v.Const, GoT: v.GoT}
	}
	if v.IsNil {
		return Val{T: env.c.zero(sort, nil)}
	}
	return v
}

func (env *Env) eval(e ast.Expr) Val {
	// constant folding by the type checker (code mode)
	if env.code {
		if tv, ok := env.info().Types[e]; ok && tv.Value != nil {
			return env.constVal(tv.Value, tv.Type)
		}
	}
	switch x := e.(type) {
	case *ast.ParenExpr:
		return env.eval(x.X)
	case *ast.BasicLit:
		return env.lit(x)
	case *ast.Ident:
		return env.ident(x)
	case *ast.SelectorExpr:
		return env.selector(x)
	case *ast.BinaryExpr:
		return env.binary(x)
	case *ast.UnaryExpr:
		return env.unary(x)
	case *ast.StarExpr:
		v := env.eval(x.X)
		return env.deref(v, x.Pos())
	case *ast.IndexExpr:
		return env.index(x)
	case *ast.SliceExpr:
		return env.sliceExpr(x)
	case *ast.CallExpr:
		return env.call(x)
	case *ast.CompositeLit:
		return env.compositeLit(x)
	case *ast.TypeAssertExpr:
		return env.typeAssert(x, false)
	case *ast.FuncLit:
		return Val{T: env.c.fresh("closure", "Func"), GoT: env.typeOf(e)}
	}
	env.fail(e.Pos(), "unsupported expression %T", e)
	return Val{}
}

func (env *Env) typeOf(e ast.Expr) types.Type {
	if env.code {
		if tv, ok := env.info().Types[e]; ok {
			return tv.Type
		}
		if id, ok := e.(*ast.Ident); ok {
			if o := env.info().ObjectOf(id); o != nil {
				return o.Type()
			}
		}
	}
	return nil
}

func (env *Env) lit(x *ast.BasicLit) Val {
	switch x.Kind {
	case token.INT:
		v := constant.MakeFromLiteral(x.Value, token.INT, 0)
		return Val{T: intLit(v, SInt), Const: v}
	case token.STRING:
		s, _ := strconv.Unquote(x.Value)
		return Val{T: tStr(s), Const: constant.MakeString(s)}
	case token.CHAR:
		v := constant.MakeFromLiteral(x.Value, token.CHAR, 0)
		return Val{T: intLit(v, SInt), Const: v}
	}
	env.fail(x.Pos(), "unsupported literal %s", x.Value)
	return Val{}
}

func (env *Env) ident(id *ast.Ident) Val {
	name := id.Name
	if env.bound != nil {
		if t, ok := env.bound[name]; ok {
			return Val{T: t}
		}
	}
	if env.code {
		obj := env.info().ObjectOf(id)
		switch o := obj.(type) {
		case *types.Var:
			if l, ok := env.st.locs[o]; ok {
				return Val{Loc: l, GoT: o.Type()}
			}
			if t, ok := env.st.vars[o]; ok {
				return Val{T: t, GoT: o.Type()}
			}
			if o.Parent() == o.Pkg().Scope() || o.Pkg() != env.c.fi.Pkg.Types {
				return env.global(o)
			}
			env.fail(id.Pos(), "variable %s has no value", name)
		case *types.Const:
			return env.constVal(o.Val(), o.Type())
		case *types.Nil:
			return Val{IsNil: true}
		case *types.Func:
			return env.funcVal(o)
		}
		if name == "true" || name == "false" {
			return Val{T: tBool(name == "true")}
		}
		env.fail(id.Pos(), "unsupported identifier %s", name)
	}
	// contract mode
	// binders and lets take precedence over Go locals of the same name (a range binder counts completed iterations)
	if v, ok := env.st.spec[name]; ok && !env.foreign {
		return v
	}
	if v, ok := env.names[name]; ok {
		return v
	}
	switch name {
	case "true", "false":
		return Val{T: tBool(name == "true")}
	case "nil":
		return Val{IsNil: true}
	}
	// package-level object of the function's package
	if env.pkg != nil {
		if o := env.pkg.Types.Scope().Lookup(name); o != nil {
			return env.pkgObject(o, id.Pos())
		}
	}
	if f, ok := env.c.eng.Spec.Fns[name]; ok && len(f.Args) == 0 {
		return Val{T: Term{f.Name, f.Res}}
	}
	env.fail(id.Pos(), "contract: unknown name %q", name)
	return Val{}
}

func (env *Env) pkgObject(o types.Object, pos token.Pos) Val {
	switch oo := o.(type) {
	case *types.Const:
		return env.constVal(oo.Val(), oo.Type())
	case *types.Var:
		return env.global(oo)
	case *types.Func:
		return env.funcVal(oo)
	case *types.TypeName:
		return Val{T: Term{"type:" + oo.Name(), "Type"}, GoT: oo.Type()}
	}
	env.fail(pos, "unsupported package object %v", o)
	return Val{}
}

func (env *Env) selector(x *ast.SelectorExpr) Val {
	// qualified identifier?
	if id, ok := x.X.(*ast.Ident); ok {
		if env.code {
			if pn, ok := env.info().ObjectOf(id).(*types.PkgName); ok {
				o := pn.Imported().Scope().Lookup(x.Sel.Name)
				if o == nil {
					env.fail(x.Pos(), "unknown %s.%s", id.Name, x.Sel.Name)
				}
				return env.pkgObject(o, x.Pos())
			}
		} else {
			if id.Name == "ghost" {
				if v, ok := env.st.spec["ghost."+x.Sel.Name]; ok {
					return v
				}
				env.fail(x.Pos(), "unknown ghost variable %s", x.Sel.Name)
			}
			if id.Name == "call" && strings.HasPrefix(x.Sel.Name, "arg") {
				// arguments of the call a "before call F#*" item is attached to
				if v, ok := env.st.spec["call."+x.Sel.Name]; ok {
					return v
				}
				env.fail(x.Pos(), "unknown name %q (no such argument at this call)", "call."+x.Sel.Name)
			}
			_, isName := env.names[id.Name]
			_, isSpec := env.st.spec[id.Name]
			_, isBound := env.bound[id.Name]
			if !isName && !isSpec && !isBound {
				if env.pkg == nil || env.pkg.Types.Scope().Lookup(id.Name) == nil {
					if tp := env.c.eng.pkgByShortName(env.pkg, id.Name); tp != nil {
						if o := tp.Scope().Lookup(x.Sel.Name); o != nil {
							return env.pkgObject(o, x.Pos())
						}
						env.fail(x.Pos(), "contract: unknown %s.%s", id.Name, x.Sel.Name)
					}
				}
			}
		}
	}
	// field selection (possibly through embedded fields)
	if env.code {
		if sel, ok := env.info().Selections[x]; ok {
			if sel.Kind() != types.FieldVal {
				env.fail(x.Pos(), "method value %s not supported here", x.Sel.Name)
			}
			base := env.eval(x.X)
			t := env.typeOf(x.X)
			idx := sel.Index()
			for _, fi := range idx {
				st, _ := derefStruct(t)
				if st == nil {
					env.fail(x.Pos(), "field path through non-struct")
				}
				f := st.Field(fi)
				base = env.fieldOf(base, f.Name(), x.Pos())
				base.GoT = f.Type()
				t = f.Type()
			}
			return base
		}
	}
	base := env.eval(x.X)
	return env.fieldOf(base, x.Sel.Name, x.Pos())
}

func derefStruct(t types.Type) (*types.Struct, bool) {
	if t == nil {
		return nil, false
	}
	ptr := false
	if p, ok := t.Underlying().(*types.Pointer); ok {
		t = p.Elem()
		ptr = true
	}
	st, _ := t.Underlying().(*types.Struct)
	return st, ptr
}

// fieldOf selects a field, auto-dereferencing pointers.
func (env *Env) fieldOf(base Val, name string, pos token.Pos) Val {
	ss := env.ss()
	if base.Loc != nil {
		l := &Loc{Root: base.Loc.Root, Path: append(append([]PathElem(nil), base.Loc.Path...), PathElem{Kind: "field", Field: name}), NilCond: base.Loc.NilCond, Ver: base.Loc.Ver}
		if base.Loc.NilCond != "false" {
			env.safe("safe:nil-deref", pos, not(base.Loc.NilCond), "pointer is non-nil")
		}
		return Val{T: env.readLoc(l, pos)}
	}
	t := base.T
	if si := ss.Info(t.Sort); si != nil && si.Kind == KPtr {
		env.safe("safe:nil-deref", pos, app(t.Sort+".nonnil", t.S), "pointer is non-nil")
		t = Term{app(t.Sort+".val", t.S), si.Elem}
	}
	if f, fi, ok := ss.field(t, name); ok {
		return Val{T: f, GoT: fi.GoType}
	}
	// embedded struct fields (contract mode)
	if si := ss.Info(t.Sort); si != nil && si.Kind == KStruct {
		for _, f := range si.Fields {
			if f.GoType == nil {
				continue
			}
			if st, _ := derefStruct(f.GoType); st != nil {
				for i := 0; i < st.NumFields(); i++ {
					if st.Field(i).Name() == name {
						inner := Val{T: Term{app(f.Sel, t.S), f.Sort}}
						return env.fieldOf(inner, name, pos)
					}
				}
			}
		}
	}
	// spec datatype selector
	if sels, ok := env.c.eng.Spec.Sels[t.Sort]; ok {
		if sel, ok := sels[name]; ok {
			return Val{T: Term{app(sel, t.S), env.c.eng.Spec.Fns[sel].Res}}
		}
	}
	// an exported field (possibly promoted through embedding) of a struct of another module that is modelled opaquely
	// (it has unexported fields): reading it yields an unknown but fixed value of the field's type - an uninterpreted
	// function of the opaque value. Only reads: nothing in the module can write such a field through this model.
	if si := ss.Info(t.Sort); si != nil && si.Kind == KStruct && si.GoType != nil && len(si.Fields) > 0 && si.Fields[0].Name == "$id" {
		if obj, _, _ := types.LookupFieldOrMethod(si.GoType, true, nil, name); obj != nil {
			if fv, isVar := obj.(*types.Var); isVar && fv.IsField() && fv.Exported() {
				fs := ss.SortOf(fv.Type())
				fn := "opq." + mangle(t.Sort) + "." + name
				env.c.declOnce(fmt.Sprintf("(declare-fun %s (%s) %s)", fn, t.Sort, fs))
				r := Term{app(fn, t.S), fs}
				env.st.Assume(env.c.typeFacts(r, fv.Type()))
				return Val{T: r, GoT: fv.Type()}
			}
		}
	}
	env.fail(pos, "no field %s in sort %s", name, t.Sort)
	return Val{}
}

// term forces a Val to an SMT term (pointers with locations become Ptr datatype values).
func (env *Env) term(v Val, pos token.Pos) Term {
	if v.Loc != nil {
		cur := env.readLocNoCheck(v.Loc)
		ps := env.ss().ptrSortOf(cur.Sort)
		return Term{app("mk."+ps, not(v.Loc.NilCond), cur.S), ps}
	}
	if v.IsNil {
		env.fail(pos, "untyped nil without context")
	}
	return v.T
}

func (ss *Sorts) ptrSortOf(es string) string {
	name := "Ptr<" + mangle(es) + ">"
	if _, ok := ss.byName[name]; ok {
		return name
	}
	si := &SortInfo{Name: name, Kind: KPtr, Elem: es, Ctor: "mk." + name}
	si.decl = fmt.Sprintf("(declare-datatypes ((%s 0)) (((%s (%s.nonnil Bool) (%s.val %s)))))", name, si.Ctor, name, name, es)
	ss.add(si)
	return name
}

func (env *Env) deref(v Val, pos token.Pos) Val {
	if v.Loc != nil {
		if v.Loc.NilCond != "false" {
			env.safe("safe:nil-deref", pos, not(v.Loc.NilCond), "pointer is non-nil")
		}
		return Val{T: env.readLoc(v.Loc, pos)}
	}
	si := env.ss().Info(v.T.Sort)
	if si == nil || si.Kind != KPtr {
		env.fail(pos, "deref of non-pointer sort %s", v.T.Sort)
	}
	env.safe("safe:nil-deref", pos, app(v.T.Sort+".nonnil", v.T.S), "pointer is non-nil")
	return Val{T: Term{app(v.T.Sort+".val", v.T.S), si.Elem}, GoT: si.GoElem}
}

// ---- locations ----

func (env *Env) rootTerm(o types.Object, pos token.Pos) Term {
	if t, ok := env.st.vars[o]; ok {
		return t
	}
	if v, ok := o.(*types.Var); ok && (v.Parent() == v.Pkg().Scope()) {
		return env.global(v).T
	}
	env.fail(pos, "no value for %s", o.Name())
	return Term{}
}

func (env *Env) readLoc(l *Loc, pos token.Pos) Term {
	if l.Ver != env.st.vers[l.Root] {
		env.fail(pos, "pointer into %s used after the variable was reassigned (possible reallocation)", l.Root.Name())
	}
	return env.readPath(env.rootTerm(l.Root, pos), l.Path, pos, true)
}

func (env *Env) readLocNoCheck(l *Loc) Term {
	save := env.nosafe
	env.nosafe = true
	defer func() { env.nosafe = save }()
	return env.readPath(env.rootTerm(l.Root, token.NoPos), l.Path, token.NoPos, false)
}

func (env *Env) readPath(base Term, path []PathElem, pos token.Pos, check bool) Term {
	ss := env.ss()
	cur := base
	for _, pe := range path {
		si := ss.Info(cur.Sort)
		switch pe.Kind {
		case "field":
			if si != nil && si.Kind == KPtr {
				if check {
					env.safe("safe:nil-deref", pos, app(cur.Sort+".nonnil", cur.S), "pointer is non-nil")
				}
				cur = Term{app(cur.Sort+".val", cur.S), si.Elem}
			}
			f, _, ok := ss.field(cur, pe.Field)
			if !ok {
				env.fail(pos, "no field %s in %s", pe.Field, cur.Sort)
			}
			cur = f
		case "deref":
			if si == nil || si.Kind != KPtr {
				env.fail(pos, "deref of %s", cur.Sort)
			}
			if check {
				env.safe("safe:nil-deref", pos, app(cur.Sort+".nonnil", cur.S), "pointer is non-nil")
			}
			cur = Term{app(cur.Sort+".val", cur.S), si.Elem}
		case "index":
			if si == nil {
				env.fail(pos, "index into %s", cur.Sort)
			}
			switch si.Kind {
			case KSlice:
				if check {
					env.safe("safe:index", pos, and(app("<=", "0", pe.Idx.S), app("<", pe.Idx.S, ss.slLen(cur).S)), "index in range")
				}
				cur = Term{app("select", ss.slArr(cur), pe.Idx.S), si.Elem}
			case KArray:
				if check {
					env.safe("safe:index", pos, and(app("<=", "0", pe.Idx.S), app("<", pe.Idx.S, fmt.Sprint(si.N))), "index in range")
				}
				cur = Term{app("select", cur.S, pe.Idx.S), si.Elem}
			default:
				env.fail(pos, "index into %s", cur.Sort)
			}
		case "mapidx":
			if si == nil || si.Kind != KMap {
				env.fail(pos, "map index into %s", cur.Sort)
			}
			z := env.c.zero(si.Elem, si.GoElem)
			cur = Term{ite(app("select", app(cur.Sort+".has", cur.S), pe.Idx.S), app("select", app(cur.Sort+".val", cur.S), pe.Idx.S), z.S), si.Elem}
		}
	}
	return cur
}

// writePath returns base with the location path set to v.
func (env *Env) writePath(base Term, path []PathElem, v Term, pos token.Pos) Term {
	if len(path) == 0 {
		return v
	}
	ss := env.ss()
	pe := path[0]
	si := ss.Info(base.Sort)
	switch pe.Kind {
	case "field":
		if si != nil && si.Kind == KPtr {
			inner := Term{app(base.Sort+".val", base.S), si.Elem}
			nv := env.writePath(inner, path, v, pos)
			return Term{app(si.Ctor, app(base.Sort+".nonnil", base.S), nv.S), base.Sort}
		}
		cur, _, ok := ss.field(base, pe.Field)
		if !ok {
			if bsi := ss.Info(base.Sort); bsi != nil && bsi.Kind == KStruct && len(bsi.Fields) > 0 && bsi.Fields[0].Name == "$id" {
				// a field of an external struct type that the spec files do not model: the store is not observable
				env.c.noteOnce("store to field " + pe.Field + " of external type " + base.Sort + " is not modelled (ignored)")
				return base
			}
			env.fail(pos, "no field %s in %s", pe.Field, base.Sort)
		}
		nv := env.writePath(cur, path[1:], v, pos)
		r, err := ss.structUpdate(base, pe.Field, nv.S)
		if err != nil {
			env.fail(pos, "%v", err)
		}
		return r
	case "deref":
		inner := Term{app(base.Sort+".val", base.S), si.Elem}
		nv := env.writePath(inner, path[1:], v, pos)
		return Term{app(si.Ctor, app(base.Sort+".nonnil", base.S), nv.S), base.Sort}
	case "index":
		switch si.Kind {
		case KSlice:
			cur := Term{app("select", ss.slArr(base), pe.Idx.S), si.Elem}
			nv := env.writePath(cur, path[1:], v, pos)
			return ss.mkSlice(base.Sort, app("store", ss.slArr(base), pe.Idx.S, nv.S), ss.slLen(base).S, ss.slOwn(base))
		case KArray:
			cur := Term{app("select", base.S, pe.Idx.S), si.Elem}
			nv := env.writePath(cur, path[1:], v, pos)
			return Term{app("store", base.S, pe.Idx.S, nv.S), base.Sort}
		}
	case "mapidx":
		if len(path) > 1 {
			// m[k][i] = v : the slice stored under k shares its backing array with the map's value, so the element
			// store is visible through the map: update the stored slice value
			if path[1].Kind != "index" {
				env.fail(pos, "write below a map element is only supported for slice elements")
			}
			cur := Term{app("select", app(base.Sort+".val", base.S), pe.Idx.S), si.Elem}
			nv := env.writePath(cur, path[1:], v, pos)
			return Term{app(si.Ctor, app(base.Sort+".has", base.S), app("store", app(base.Sort+".val", base.S), pe.Idx.S, nv.S),
				app(base.Sort+".card", base.S), app(base.Sort+".nonnil", base.S)), base.Sort}
		}
		has := app(base.Sort+".has", base.S)
		val := app(base.Sort+".val", base.S)
		card := app(base.Sort+".card", base.S)
		return Term{app(si.Ctor, app("store", has, pe.Idx.S, "true"), app("store", val, pe.Idx.S, v.S),
			ite(app("select", has, pe.Idx.S), card, app("+", card, "1")), app(base.Sort+".nonnil", base.S)), base.Sort}
	}
	env.fail(pos, "unsupported write path %s on %s", pe.Kind, base.Sort)
	return Term{}
}

// lvalue computes the location of an assignable expression (code mode).
func (env *Env) lvalue(e ast.Expr) *Loc {
	switch x := e.(type) {
	case *ast.ParenExpr:
		return env.lvalue(x.X)
	case *ast.Ident:
		obj := env.info().ObjectOf(x)
		if l, ok := env.st.locs[obj]; ok {
			_ = l
			// the pointer variable itself is being assigned: treat as plain variable
		}
		return &Loc{Root: obj, NilCond: "false", Ver: env.st.vers[obj]}
	case *ast.SelectorExpr:
		if sel, ok := env.info().Selections[x]; ok && sel.Kind() == types.FieldVal {
			base := env.lvalueBase(x.X)
			t := env.typeOf(x.X)
			path := append([]PathElem(nil), base.Path...)
			for _, fi := range sel.Index() {
				st, _ := derefStruct(t)
				f := st.Field(fi)
				path = append(path, PathElem{Kind: "field", Field: f.Name()})
				t = f.Type()
			}
			return &Loc{Root: base.Root, Path: path, NilCond: base.NilCond, Ver: base.Ver}
		}
		// package-level variable
		if id, ok := x.X.(*ast.Ident); ok {
			if _, ok := env.info().ObjectOf(id).(*types.PkgName); ok {
				obj := env.info().ObjectOf(x.Sel)
				return &Loc{Root: obj, NilCond: "false"}
			}
		}
	case *ast.IndexExpr:
		base := env.lvalueBase(x.X)
		idx := env.eval(x.Index)
		bt := env.typeOf(x.X)
		kind := "index"
		if bt != nil {
			if _, ok := bt.Underlying().(*types.Map); ok {
				kind = "mapidx"
				if mt, ok := bt.Underlying().(*types.Map); ok {
					idx = env.convertVal(idx, env.typeOf(x.Index), mt.Key(), x.Pos())
				}
			} else if p, ok := bt.Underlying().(*types.Pointer); ok {
				_ = p // pointer to array: auto-deref handled by path reader (deref then index)
				base = &Loc{Root: base.Root, Path: append(append([]PathElem(nil), base.Path...), PathElem{Kind: "deref"}), NilCond: base.NilCond, Ver: base.Ver}
			}
		}
		var it Term
		if kind == "mapidx" {
			it = idx.T
		} else {
			it = env.toIntIndex(idx, x.Pos())
		}
		return &Loc{Root: base.Root, Path: append(append([]PathElem(nil), base.Path...), PathElem{Kind: kind, Idx: it}), NilCond: base.NilCond, Ver: base.Ver}
	case *ast.StarExpr:
		base := env.lvalueBase(x.X)
		return base
	}
	env.fail(e.Pos(), "unsupported lvalue %T", e)
	return nil
}

// lvalueBase: location designated by expression e when used as the base of a selector/index/deref.
// For pointer-typed variables the location is the pointee.
func (env *Env) lvalueBase(e ast.Expr) *Loc {
	switch x := e.(type) {
	case *ast.ParenExpr:
		return env.lvalueBase(x.X)
	case *ast.Ident:
		obj := env.info().ObjectOf(x)
		if l, ok := env.st.locs[obj]; ok {
			if l.Ver != env.st.vers[l.Root] {
				env.fail(e.Pos(), "pointer into %s used after the variable was reassigned", l.Root.Name())
			}
			return l
		}
		l := &Loc{Root: obj, NilCond: "false", Ver: env.st.vers[obj]}
		if _, ok := obj.Type().Underlying().(*types.Pointer); ok {
			l.Path = []PathElem{{Kind: "deref"}}
		}
		return l
	case *ast.CallExpr, *ast.CompositeLit:
		env.fail(e.Pos(), "write through a temporary is not supported")
	}
	l := env.lvalue(e)
	if t := env.typeOf(e); t != nil {
		if _, ok := t.Underlying().(*types.Pointer); ok {
			l = &Loc{Root: l.Root, Path: append(append([]PathElem(nil), l.Path...), PathElem{Kind: "deref"}), NilCond: l.NilCond, Ver: l.Ver}
		}
	}
	return l
}

func (env *Env) toIntIndex(v Val, pos token.Pos) Term {
	v = env.coerce(v, SInt)
	switch v.T.Sort {
	case SInt:
		return v.T
	case SBV32:
		return env.w2i(v.T, 32)
	case SBV64:
		return env.w2i(v.T, 64)
	}
	env.fail(pos, "index of sort %s", v.T.Sort)
	return Term{}
}

// ---- integer/bit-vector bridges (uninterpreted, with instantiated lemmas) ----

func (env *Env) w2i(t Term, bits int) Term {
	fn := fmt.Sprintf("w2i%d", bits)
	r := Term{app(fn, t.S), SInt}
	pow := "4294967296"
	if bits == 64 {
		pow = "18446744073709551616"
	}
	if len(env.bound) == 0 { // the instance would mention a bound variable otherwise
		env.st.Assume(and(app("<=", "0", r.S), app("<", r.S, pow), eq(app(fmt.Sprintf("i2w%d", bits), r.S), t.S)))
	}
	return r
}

func (env *Env) i2w(t Term, bits int) Term {
	fn := fmt.Sprintf("i2w%d", bits)
	sort := SBV32
	pow := "4294967296"
	if bits == 64 {
		sort = SBV64
		pow = "18446744073709551616"
	}
	r := Term{app(fn, t.S), sort}
	if len(env.bound) == 0 {
		env.st.Assume(implies(and(app("<=", "0", t.S), app("<", t.S, pow)), eq(app(fmt.Sprintf("w2i%d", bits), r.S), t.S)))
	}
	return r
}

// ---- operators ----

func (env *Env) unary(x *ast.UnaryExpr) Val {
	switch x.Op {
	case token.AND:
		// &x: location; &T{...}: fresh value pointer
		if cl, ok := x.X.(*ast.CompositeLit); ok {
			v := env.eval(cl)
			ps := env.ss().ptrSortOf(v.T.Sort)
			return Val{T: Term{app("mk."+ps, "true", v.T.S), ps}, GoT: env.typeOf(x)}
		}
		if !env.code {
			env.fail(x.Pos(), "& in contract")
		}
		l := env.lvalue(x.X)
		return Val{Loc: l, GoT: env.typeOf(x)}
	case token.NOT:
		v := env.eval(x.X)
		return Val{T: Term{not(v.T.S), SBool}}
	case token.SUB:
		v := env.eval(x.X)
		if v.Const != nil {
			return Val{T: intLit(constant.UnaryOp(token.SUB, v.Const, 0), v.T.Sort), Const: constant.UnaryOp(token.SUB, v.Const, 0)}
		}
		if v.T.Sort == SInt {
			return Val{T: Term{app("-", v.T.S), SInt}, GoT: v.GoT}
		}
		return Val{T: Term{app("bvneg", v.T.S), v.T.Sort}, GoT: v.GoT}
	case token.XOR:
		v := env.eval(x.X)
		if isBV(v.T.Sort) {
			return Val{T: Term{app("bvnot", v.T.S), v.T.Sort}, GoT: v.GoT}
		}
	case token.ADD:
		return env.eval(x.X)
	}
	env.fail(x.Pos(), "unsupported unary %s", x.Op)
	return Val{}
}

func (env *Env) binary(x *ast.BinaryExpr) Val {
	if x.Op == token.LAND || x.Op == token.LOR {
		a := env.eval(x.X)
		// evaluate b under the guard a (or !a)
		g := a.T.S
		if x.Op == token.LOR {
			g = not(g)
		}
		n := len(env.st.hyps)
		env.st.hyps = append(env.st.hyps, g)
		restored := false
		defer func() {
			if !restored { // evaluation of the right operand failed: drop the temporary guard
				env.st.hyps = env.st.hyps[:n]
			}
		}()
		b := env.eval(x.Y)
		restored = true
		// facts learnt while evaluating b are kept, guarded
		extra := append([]string(nil), env.st.hyps[n+1:]...)
		env.st.hyps = env.st.hyps[:n]
		for _, h := range extra {
			env.st.hyps = append(env.st.hyps, implies(g, h))
		}
		if x.Op == token.LAND {
			return Val{T: Term{and(a.T.S, b.T.S), SBool}}
		}
		return Val{T: Term{or(a.T.S, b.T.S), SBool}}
	}
	a := env.eval(x.X)
	b := env.eval(x.Y)
	var ta, tb types.Type
	if env.code {
		ta, tb = env.typeOf(x.X), env.typeOf(x.Y)
	}
	return env.binop(x.Op, a, b, ta, tb, x.Pos())
}

func (env *Env) binop(op token.Token, a, b Val, ta, tb types.Type, pos token.Pos) Val {
	ss := env.ss()
	// nil comparisons
	if (op == token.EQL || op == token.NEQ) && (a.IsNil || b.IsNil) {
		other := a
		if a.IsNil {
			other = b
		}
		var isnil string
		if other.IsNil {
			isnil = "true"
		} else if other.Loc != nil {
			isnil = other.Loc.NilCond
		} else {
			si := ss.Info(other.T.Sort)
			if si == nil {
				env.fail(pos, "nil comparison on sort %s", other.T.Sort)
			}
			switch si.Kind {
			case KPtr, KMap:
				isnil = not(app(other.T.Sort+".nonnil", other.T.S))
			case KIface:
				isnil = eq(other.T.S, other.T.Sort+".nil")
			case KSlice:
				isnil = app("slice.isnil."+mangle(other.T.Sort), other.T.S)
				env.c.declOnce(fmt.Sprintf("(declare-fun slice.isnil.%s (%s) Bool)", mangle(other.T.Sort), other.T.Sort))
				env.st.Assume(implies(isnil, eq(ss.slLen(other.T).S, "0")))
			default:
				env.fail(pos, "nil comparison on sort %s", other.T.Sort)
			}
		}
		if op == token.NEQ {
			isnil = not(isnil)
		}
		return Val{T: Term{isnil, SBool}}
	}
	at, bt := env.term(a, pos), env.term(b, pos)
	a.T, b.T = at, bt
	// shifts: count may have a different sort
	if op == token.SHL || op == token.SHR {
		if !isBV(a.T.Sort) {
			if a.Const != nil && b.Const != nil {
				s, _ := constant.Uint64Val(b.Const)
				v := constant.Shift(a.Const, op, uint(s))
				return Val{T: intLit(v, SInt), Const: v}
			}
			env.fail(pos, "shift on non-bitvector sort %s", a.T.Sort)
		}
		cnt := b
		if b.Const != nil {
			cnt = env.coerce(b, a.T.Sort)
		} else if b.T.Sort != a.T.Sort {
			if b.T.Sort == SInt {
				cnt = Val{T: env.i2w(b.T, bvBits(a.T.Sort))}
			} else if bvBits(b.T.Sort) < bvBits(a.T.Sort) {
				cnt = Val{T: Term{fmt.Sprintf("((_ zero_extend %d) %s)", bvBits(a.T.Sort)-bvBits(b.T.Sort), b.T.S), a.T.Sort}}
			} else {
				env.fail(pos, "shift count wider than operand")
			}
		}
		f := "bvshl"
		if op == token.SHR {
			f = "bvlshr"
		}
		return Val{T: Term{app(f, a.T.S, cnt.T.S), a.T.Sort}, GoT: a.GoT}
	}
	// unify sorts
	if a.T.Sort != b.T.Sort {
		if a.Const != nil {
			a = env.coerce(a, b.T.Sort)
		} else if b.Const != nil {
			b = env.coerce(b, a.T.Sort)
		}
	}
	if a.T.Sort != b.T.Sort {
		// interface vs concrete
		if si := ss.Info(a.T.Sort); si != nil && si.Kind == KIface {
			b = env.box(b, tb, a.T.Sort, pos)
		} else if si := ss.Info(b.T.Sort); si != nil && si.Kind == KIface {
			a = env.box(a, ta, b.T.Sort, pos)
		}
	}
	if a.T.Sort != b.T.Sort {
		env.fail(pos, "operands of %s have different sorts: %s vs %s", op, a.T.Sort, b.T.Sort)
	}
	s := a.T.Sort
	if a.Const != nil && b.Const != nil && (op == token.ADD || op == token.SUB || op == token.MUL || op == token.AND || op == token.OR || op == token.XOR) && s == SInt {
		v := constant.BinaryOp(a.Const, op, b.Const)
		return Val{T: intLit(v, SInt), Const: v}
	}
	mk := func(f string, rs string) Val { return Val{T: Term{app(f, a.T.S, b.T.S), rs}, GoT: a.GoT} }
	switch op {
	case token.EQL:
		return mk("=", SBool)
	case token.NEQ:
		return Val{T: Term{not(eq(a.T.S, b.T.S)), SBool}}
	}
	switch {
	case s == SInt:
		switch op {
		case token.ADD, token.SUB, token.MUL:
			f := map[token.Token]string{token.ADD: "+", token.SUB: "-", token.MUL: "*"}[op]
			r := mk(f, SInt)
			env.overflow(r, ta, pos)
			return r
		case token.QUO:
			env.safe("safe:div0", pos, not(eq(b.T.S, "0")), "divisor is non-zero")
			return mk("godiv", SInt)
		case token.REM:
			env.safe("safe:div0", pos, not(eq(b.T.S, "0")), "divisor is non-zero")
			return mk("gomod", SInt)
		case token.LSS:
			return mk("<", SBool)
		case token.LEQ:
			return mk("<=", SBool)
		case token.GTR:
			return mk(">", SBool)
		case token.GEQ:
			return mk(">=", SBool)
		case token.OR, token.AND, token.XOR, token.AND_NOT:
			// small unsigned integer types: exact bit-vector semantics through int2bv / bv2nat
			if w := smallUnsignedWidth(ta); w > 0 {
				f := map[token.Token]string{token.OR: "bvor", token.AND: "bvand", token.XOR: "bvxor"}[op]
				ab := fmt.Sprintf("((_ int2bv %d) %s)", w, a.T.S)
				bb := fmt.Sprintf("((_ int2bv %d) %s)", w, b.T.S)
				var r string
				if op == token.AND_NOT {
					r = app("bvand", ab, app("bvnot", bb))
				} else {
					r = app(f, ab, bb)
				}
				return Val{T: Term{app("bv2nat", r), SInt}, GoT: a.GoT}
			}
			// both operands are numerals (a constant argument substituted for a parameter in a contract clause): exact
			if x, err1 := strconv.ParseUint(a.T.S, 10, 62); err1 == nil {
				if y, err2 := strconv.ParseUint(b.T.S, 10, 62); err2 == nil {
					switch op {
					case token.OR:
						return Val{T: Term{fmt.Sprint(x | y), SInt}, GoT: a.GoT}
					case token.AND:
						return Val{T: Term{fmt.Sprint(x & y), SInt}, GoT: a.GoT}
					case token.XOR:
						return Val{T: Term{fmt.Sprint(x ^ y), SInt}, GoT: a.GoT}
					case token.AND_NOT:
						return Val{T: Term{fmt.Sprint(x &^ y), SInt}, GoT: a.GoT}
					}
				}
			}
			if op == token.OR {
				return mk("int.or", SInt)
			}
			if op == token.AND {
				return mk("int.and", SInt)
			}
		}
	case isBV(s):
		f := map[token.Token]string{token.ADD: "bvadd", token.SUB: "bvsub", token.MUL: "bvmul", token.AND: "bvand", token.OR: "bvor", token.XOR: "bvxor",
			token.QUO: "bvudiv", token.REM: "bvurem"}[op]
		if f != "" {
			if op == token.QUO || op == token.REM {
				env.safe("safe:div0", pos, not(eq(b.T.S, tBV(0, bvBits(s)).S)), "divisor is non-zero")
			}
			return mk(f, s)
		}
		if op == token.AND_NOT {
			return Val{T: Term{app("bvand", a.T.S, app("bvnot", b.T.S)), s}, GoT: a.GoT}
		}
		c := map[token.Token]string{token.LSS: "bvult", token.LEQ: "bvule", token.GTR: "bvugt", token.GEQ: "bvuge"}[op]
		if c != "" {
			return mk(c, SBool)
		}
	case s == SString:
		switch op {
		case token.ADD:
			return mk("str.++", SString)
		case token.LSS:
			return mk("str.<", SBool)
		case token.LEQ:
			return mk("str.<=", SBool)
		case token.GTR:
			return Val{T: Term{app("str.<", b.T.S, a.T.S), SBool}}
		case token.GEQ:
			return Val{T: Term{app("str.<=", b.T.S, a.T.S), SBool}}
		}
	case s == SBool:
		switch op {
		case token.LAND:
			return Val{T: Term{and(a.T.S, b.T.S), SBool}}
		case token.LOR:
			return Val{T: Term{or(a.T.S, b.T.S), SBool}}
		}
	}
	env.fail(pos, "unsupported operator %s on sort %s", op, s)
	return Val{}
}

func (env *Env) overflow(r Val, t types.Type, pos token.Pos) {
	if !env.code || t == nil {
		return
	}
	if b, ok := t.Underlying().(*types.Basic); ok {
		lo, hi := intRange(b)
		if lo != "" {
			env.safe("safe:overflow", pos, and(app("<=", tIntS(lo).S, r.T.S), app("<=", r.T.S, hi)), "arithmetic result fits "+b.Name())
		}
	}
}

// box converts a concrete value to an interface sort.
func (env *Env) box(v Val, from types.Type, isort string, pos token.Pos) Val {
	if v.IsNil {
		return Val{T: Term{isort + ".nil", isort}}
	}
	t := env.term(v, pos)
	if t.Sort == isort {
		return Val{T: t, GoT: v.GoT}
	}
	si := env.ss().Info(isort)
	for _, b := range si.Boxes {
		if b.Sort == t.Sort {
			if from == nil || types.Identical(from, b.GoType) || v.GoT == nil {
				return Val{T: Term{app(b.Ctor, t.S), isort}}
			}
		}
	}
	if isort == "I.error" && t.Sort == SBV64 {
		// syscall.Errno
		return Val{T: Term{app("I.error.errno", t.S), isort}}
	}
	// opaque box: identity unknown but non-nil
	id := env.c.fresh("box", SInt)
	return Val{T: Term{app(isort+".other", id.S), isort}}
}

// convertVal converts v of Go type from to Go type to (assignability or explicit conversion).
func (env *Env) convertVal(v Val, from, to types.Type, pos token.Pos) Val {
	if to == nil {
		return v
	}
	ss := env.ss()
	ts := ss.SortOf(to)
	if v.IsNil {
		return Val{T: env.c.zero(ts, to), GoT: to}
	}
	if v.Loc != nil {
		// pointer with location keeps its location
		return v
	}
	if v.Const != nil && v.Const.Kind() == constant.Int && (ts == SInt || isBV(ts)) {
		return Val{T: intLit(v.Const, ts), Const: v.Const, GoT: to}
	}
	if v.T.Sort == ts {
		v.GoT = to
		return v
	}
	if si := ss.Info(ts); si != nil && si.Kind == KIface {
		r := env.box(v, from, ts, pos)
		r.GoT = to
		return r
	}
	fs := v.T.Sort
	switch {
	case fs == SBV64 && ts == SBV32:
		return Val{T: Term{app("(_ extract 31 0)", v.T.S), SBV32}, GoT: to}
	case fs == SBV32 && ts == SBV64:
		return Val{T: Term{app("(_ zero_extend 32)", v.T.S), SBV64}, GoT: to}
	case fs == SInt && ts == SBV32:
		return Val{T: env.i2w(v.T, 32), GoT: to}
	case fs == SInt && ts == SBV64:
		return Val{T: env.i2w(v.T, 64), GoT: to}
	case fs == SBV32 && ts == SInt:
		return Val{T: env.w2i(v.T, 32), GoT: to}
	case fs == SBV64 && ts == SInt:
		return Val{T: env.w2i(v.T, 64), GoT: to}
	}
	env.fail(pos, "unsupported conversion %s -> %s", fs, ts)
	return Val{}
}

// explicit conversion T(x)
func (env *Env) conversion(to types.Type, arg ast.Expr, pos token.Pos) Val {
	v := env.eval(arg)
	from := env.typeOf(arg)
	ts := env.ss().SortOf(to)
	if v.Const != nil && (ts == SInt || isBV(ts)) && v.Const.Kind() == constant.Int {
		return Val{T: intLit(v.Const, ts), Const: v.Const, GoT: to}
	}
	t := v.T
	if v.Loc != nil {
		t = env.term(v, pos)
	}
	// Int -> narrower Int: wrap and emit a no-truncation obligation
	if t.Sort == SInt && ts == SInt {
		if b, ok := to.Underlying().(*types.Basic); ok {
			lo, hi := intRange(b)
			fromLo, fromHi := "", ""
			if fb, ok := from.Underlying().(*types.Basic); ok {
				fromLo, fromHi = intRange(fb)
			}
			if lo != "" && !(fromLo != "" && geDec(fromLo, lo) && geDec(hi, fromHi)) {
				env.safe("safe:trunc", pos, and(app("<=", tIntS(lo).S, t.S), app("<=", t.S, hi)), "conversion to "+b.Name()+" does not truncate")
				if lo == "0" {
					m := new(big.Int)
					m.SetString(hi, 10)
					m.Add(m, big.NewInt(1))
					return Val{T: Term{app("mod", t.S, m.String()), SInt}, GoT: to}
				}
			}
		}
		return Val{T: t, GoT: to}
	}
	if ts == "UPtr" {
		fn := "uptr.from." + mangle(t.Sort)
		back := "uptr.to." + mangle(t.Sort)
		env.c.declOnce(fmt.Sprintf("(declare-fun %s (%s) UPtr)", fn, t.Sort))
		env.c.declOnce(fmt.Sprintf("(declare-fun %s (UPtr) %s)", back, t.Sort))
		r := Term{app(fn, t.S), "UPtr"}
		env.st.Assume(eq(app(back, r.S), t.S))
		return Val{T: r, GoT: to}
	}
	if t.Sort == "UPtr" && ts == SBV64 {
		env.c.declOnce("(declare-fun uptr.addr (UPtr) (_ BitVec 64))")
		env.c.declOnce("(declare-fun uptr.ofaddr ((_ BitVec 64)) UPtr)")
		r := Term{app("uptr.addr", t.S), SBV64}
		env.st.Assume(eq(app("uptr.ofaddr", r.S), t.S))
		return Val{T: r, GoT: to}
	}
	if t.Sort == SString && strings.HasPrefix(ts, "Slice<") {
		fn := "str2bytes"
		env.c.declOnce(fmt.Sprintf("(declare-fun %s (String) %s)", fn, ts))
		r := Term{app(fn, t.S), ts}
		env.st.Assume(eq(env.ss().slLen(r).S, app("str.len", t.S)))
		return Val{T: r, GoT: to}
	}
	if strings.HasPrefix(t.Sort, "Slice<") && ts == SString {
		fn := "bytes2str." + mangle(t.Sort)
		env.c.declOnce(fmt.Sprintf("(declare-fun %s ((Array Int %s) Int) String)", fn, env.ss().Info(t.Sort).Elem))
		r := Term{app(fn, env.ss().slArr(t), env.ss().slLen(t).S), SString}
		env.st.Assume(eq(app("str.len", r.S), env.ss().slLen(t).S))
		return Val{T: r, GoT: to}
	}
	return env.convertVal(Val{T: t, GoT: from}, from, to, pos)
}

func geDec(a, b string) bool {
	x, _ := new(big.Int).SetString(a, 10)
	y, _ := new(big.Int).SetString(b, 10)
	return x != nil && y != nil && x.Cmp(y) >= 0
}

// ---- indexing, slicing ----

func (env *Env) index(x *ast.IndexExpr) Val {
	base := env.eval(x.X)
	bt := env.term(base, x.Pos())
	idx := env.eval(x.Index)
	ss := env.ss()
	if bt.Sort == SString {
		i := env.toIntIndex(idx, x.Pos())
		env.safe("safe:index", x.Pos(), and(app("<=", "0", i.S), app("<", i.S, app("str.len", bt.S))), "string index in range")
		return Val{T: Term{app("str.to_code", app("str.at", bt.S, i.S)), SInt}}
	}
	si := ss.Info(bt.Sort)
	if si == nil && strings.HasPrefix(bt.Sort, "(Array ") {
		// raw SMT array of the spec library
		if xs, err := parseSX(bt.Sort); err == nil && len(xs) == 1 && len(xs[0].List) == 3 {
			ks, vs := xs[0].List[1].String(), xs[0].List[2].String()
			k := env.coerce(idx, ks)
			kt := env.term(k, x.Pos())
			if kt.Sort != ks {
				env.fail(x.Pos(), "array index sort %s, want %s", kt.Sort, ks)
			}
			return Val{T: Term{app("select", bt.S, kt.S), vs}}
		}
	}
	if si == nil {
		env.fail(x.Pos(), "index into sort %s", bt.Sort)
	}
	if si.Kind == KPtr { // pointer to array
		bt = Term{app(bt.Sort+".val", bt.S), si.Elem}
		si = ss.Info(bt.Sort)
	}
	switch si.Kind {
	case KSlice:
		i := env.toIntIndex(idx, x.Pos())
		env.safe("safe:index", x.Pos(), and(app("<=", "0", i.S), app("<", i.S, ss.slLen(bt).S)), "index in range")
		return Val{T: Term{app("select", ss.slArr(bt), i.S), si.Elem}, GoT: si.GoElem}
	case KArray:
		i := env.toIntIndex(idx, x.Pos())
		env.safe("safe:index", x.Pos(), and(app("<=", "0", i.S), app("<", i.S, fmt.Sprint(si.N))), "index in range")
		return Val{T: Term{app("select", bt.S, i.S), si.Elem}, GoT: si.GoElem}
	case KMap:
		k := env.coerce(idx, si.Key)
		if k.T.Sort != si.Key {
			k = env.convertVal(idx, env.typeOf(x.Index), si.GoKey, x.Pos())
		}
		has := app("select", app(bt.Sort+".has", bt.S), k.T.S)
		val := app("select", app(bt.Sort+".val", bt.S), k.T.S)
		z := env.c.zero(si.Elem, si.GoElem)
		v := Val{T: Term{ite(has, val, z.S), si.Elem}, GoT: si.GoElem}
		v.Tuple = []Val{{T: Term{ite(has, val, z.S), si.Elem}, GoT: si.GoElem}, {T: Term{has, SBool}}}
		return v
	}
	env.fail(x.Pos(), "index into sort %s", bt.Sort)
	return Val{}
}

func (env *Env) sliceExpr(x *ast.SliceExpr) Val {
	base := env.eval(x.X)
	bt := env.term(base, x.Pos())
	ss := env.ss()
	var lo, hi Term
	haveLo, haveHi := false, false
	if x.Low != nil {
		lo = env.toIntIndex(env.eval(x.Low), x.Pos())
		haveLo = true
	} else {
		lo = tInt(0)
	}
	if bt.Sort == SString {
		ln := app("str.len", bt.S)
		if x.High != nil {
			hi = env.toIntIndex(env.eval(x.High), x.Pos())
		} else {
			hi = Term{ln, SInt}
		}
		env.safe("safe:slice", x.Pos(), and(app("<=", "0", lo.S), app("<=", lo.S, hi.S), app("<=", hi.S, ln)), "string slice bounds in range")
		return Val{T: Term{app("str.substr", bt.S, lo.S, app("-", hi.S, lo.S)), SString}}
	}
	si := ss.Info(bt.Sort)
	if si == nil {
		env.fail(x.Pos(), "slice of sort %s", bt.Sort)
	}
	if si.Kind == KArray {
		// arr[:] -> slice sharing the array (value model: copy; writes through it are not reflected: refuse writes elsewhere)
		sl := ss.sliceSortOf(si.Elem, si.GoElem)
		if x.High != nil {
			hi = env.toIntIndex(env.eval(x.High), x.Pos())
		} else {
			hi = tInt(si.N)
		}
		env.safe("safe:slice", x.Pos(), and(app("<=", "0", lo.S), app("<=", lo.S, hi.S), app("<=", hi.S, fmt.Sprint(si.N))), "slice bounds in range")
		if haveLo && lo.S != "0" {
			env.fail(x.Pos(), "array slicing with non-zero low bound")
		}
		return Val{T: ss.mkSlice(sl, bt.S, hi.S, "true"), GoT: env.typeOf(x)}
	}
	if si.Kind != KSlice {
		env.fail(x.Pos(), "slice of sort %s", bt.Sort)
	}
	ln := ss.slLen(bt)
	if x.High != nil {
		hi = env.toIntIndex(env.eval(x.High), x.Pos())
		haveHi = true
	} else {
		hi = ln
	}
	// Go allows hi up to cap; we only know len <= cap, so require hi <= cap with cap uninterpreted >= len
	capT := env.capOf(bt)
	bound := capT.S
	_ = haveHi
	env.safe("safe:slice", x.Pos(), and(app("<=", "0", lo.S), app("<=", lo.S, hi.S), app("<=", hi.S, bound)), "slice bounds in range")
	newLen := app("-", hi.S, lo.S)
	if lo.S == "0" {
		newLen = hi.S
		// beyond len (up to cap) the content is unspecified: model only hi <= len exactly
		return Val{T: ss.mkSlice(bt.Sort, ss.slArr(bt), newLen, ss.slOwn(bt)), GoT: env.typeOf(x)}
	}
	// shifted view: fresh array with pointwise definition
	arr := env.c.fresh("subarr", fmt.Sprintf("(Array Int %s)", si.Elem))
	q := fmt.Sprintf("(forall ((i!q Int)) (! (=> (and (<= 0 i!q) (< i!q %s)) (= (select %s i!q) (select %s (+ i!q %s)))) :pattern ((select %s i!q))))",
		newLen, arr.S, ss.slArr(bt), lo.S, arr.S)
	env.st.Assume(q)
	return Val{T: ss.mkSlice(bt.Sort, arr.S, newLen, ss.slOwn(bt)), GoT: env.typeOf(x)}
}

func (env *Env) capOf(s Term) Term {
	fn := "cap." + mangle(s.Sort)
	env.c.declOnce(fmt.Sprintf("(declare-fun %s (%s) Int)", fn, s.Sort))
	c := Term{app(fn, s.S), SInt}
	env.st.Assume(app("<=", env.ss().slLen(s).S, c.S))
	return c
}

func (env *Env) typeAssert(x *ast.TypeAssertExpr, commaOk bool) Val {
	v := env.eval(x.X)
	t := env.term(v, x.Pos())
	si := env.ss().Info(t.Sort)
	if si == nil || si.Kind != KIface {
		env.fail(x.Pos(), "type assertion on sort %s", t.Sort)
	}
	to := env.typeOf(x.Type)
	if to == nil {
		env.fail(x.Pos(), "type assertion target unknown")
	}
	ts := env.ss().SortOf(to)
	// err.(syscall.Errno): the errno box of the error datatype
	if nt, ok := to.(*types.Named); ok && t.Sort == "I.error" && nt.Obj().Pkg() != nil && nt.Obj().Pkg().Path() == "syscall" && nt.Obj().Name() == "Errno" {
		is := app("(_ is I.error.errno)", t.S)
		val := Term{app("I.error.errno.code", t.S), ts}
		if !commaOk {
			env.safe("safe:type-assert", x.Pos(), is, "dynamic type is syscall.Errno")
			return Val{T: val, GoT: to}
		}
		z := env.c.zero(ts, to)
		return Val{Tuple: []Val{{T: Term{ite(is, val.S, z.S), ts}, GoT: to}, {T: Term{is, SBool}}}}
	}
	for _, b := range si.Boxes {
		if b.Sort == ts {
			is := app("(_ is "+b.Ctor+")", t.S)
			val := Term{app(b.Sel, t.S), ts}
			if !commaOk {
				env.safe("safe:type-assert", x.Pos(), is, "dynamic type is "+types.TypeString(to, nil))
				return Val{T: val, GoT: to}
			}
			z := env.c.zero(ts, to)
			return Val{Tuple: []Val{{T: Term{ite(is, val.S, z.S), ts}, GoT: to}, {T: Term{is, SBool}}}}
		}
	}
	env.fail(x.Pos(), "type assertion to unregistered type %s", ts)
	return Val{}
}

func (env *Env) compositeLit(x *ast.CompositeLit) Val {
	t := env.typeOf(x)
	if t == nil {
		env.fail(x.Pos(), "composite literal in contract")
	}
	ss := env.ss()
	sort := ss.SortOf(t)
	si := ss.Info(sort)
	if si == nil {
		env.fail(x.Pos(), "composite literal of sort %s", sort)
	}
	switch u := t.Underlying().(type) {
	case *types.Struct:
		vals := map[string]string{}
		for i, el := range x.Elts {
			if kv, ok := el.(*ast.KeyValueExpr); ok {
				name := kv.Key.(*ast.Ident).Name
				var ft types.Type
				for j := 0; j < u.NumFields(); j++ {
					if u.Field(j).Name() == name {
						ft = u.Field(j).Type()
					}
				}
				v := env.convertVal(env.eval(kv.Value), env.typeOf(kv.Value), ft, kv.Pos())
				vals[name] = env.term(v, kv.Pos()).S
			} else {
				f := u.Field(i)
				v := env.convertVal(env.eval(el), env.typeOf(el), f.Type(), el.Pos())
				vals[f.Name()] = env.term(v, el.Pos()).S
			}
		}
		args := make([]string, len(si.Fields))
		for i, f := range si.Fields {
			if v, ok := vals[f.Name]; ok {
				args[i] = v
			} else if f.Name == "$id" {
				args[i] = env.c.fresh("id", SInt).S
			} else {
				args[i] = env.c.zero(f.Sort, f.GoType).S
			}
		}
		if len(args) == 0 {
			return Val{T: Term{si.Ctor, sort}, GoT: t}
		}
		return Val{T: Term{app(si.Ctor, args...), sort}, GoT: t}
	case *types.Slice:
		z := env.c.zero(si.Elem, si.GoElem)
		arr := fmt.Sprintf("((as const (Array Int %s)) %s)", si.Elem, z.S)
		n := 0
		for _, el := range x.Elts {
			if _, ok := el.(*ast.KeyValueExpr); ok {
				env.fail(el.Pos(), "keyed slice literal")
			}
			v := env.convertVal(env.evalLitElem(el, u.Elem()), env.typeOf(el), u.Elem(), el.Pos())
			arr = app("store", arr, fmt.Sprint(n), env.term(v, el.Pos()).S)
			n++
		}
		return Val{T: ss.mkSlice(sort, arr, fmt.Sprint(n), "true"), GoT: t}
	case *types.Array:
		z := env.c.zero(si.Elem, si.GoElem)
		arr := fmt.Sprintf("((as const %s) %s)", sort, z.S)
		for n, el := range x.Elts {
			v := env.convertVal(env.evalLitElem(el, u.Elem()), env.typeOf(el), u.Elem(), el.Pos())
			arr = app("store", arr, fmt.Sprint(n), env.term(v, el.Pos()).S)
		}
		return Val{T: Term{arr, sort}, GoT: t}
	case *types.Map:
		m := env.c.zero(sort, t)
		cur := Term{app(si.Ctor, fmt.Sprintf("((as const (Array %s Bool)) false)", si.Key),
			app(sort+".val", m.S), "0", "true"), sort}
		for _, el := range x.Elts {
			kv := el.(*ast.KeyValueExpr)
			k := env.convertVal(env.eval(kv.Key), env.typeOf(kv.Key), u.Key(), kv.Pos())
			v := env.convertVal(env.evalLitElem(kv.Value, u.Elem()), env.typeOf(kv.Value), u.Elem(), kv.Pos())
			cur = env.writePath(cur, []PathElem{{Kind: "mapidx", Idx: k.T}}, env.term(v, kv.Pos()), kv.Pos())
			cur = env.c.nameTerm(env.st, "maplit", cur) // keep the term linear in the number of entries
		}
		return Val{T: cur, GoT: t}
	}
	env.fail(x.Pos(), "unsupported composite literal type %s", t)
	return Val{}
}

// evalLitElem evaluates an element of a composite literal; elided types are taken from elemT.
func (env *Env) evalLitElem(el ast.Expr, elemT types.Type) Val {
	return env.eval(el)
}

// funcVal: a function used as a value is an opaque constant of sort Func.
func (env *Env) funcVal(o *types.Func) Val {
	name := "fn." + strings.NewReplacer(":", ".", " ", "", "(", "", ")", "", "*", "").Replace(env.c.eng.keyOfFunc(o))
	env.c.declOnce(fmt.Sprintf("(declare-const %s Func)", name))
	return Val{T: Term{name, "Func"}, GoT: o.Type()}
}

// smallUnsignedWidth: 8 or 16 for uint8/uint16 (and named types over them), else 0.
func smallUnsignedWidth(t types.Type) int {
	if t == nil {
		return 0
	}
	if b, ok := t.Underlying().(*types.Basic); ok {
		switch b.Kind() {
		case types.Uint8:
			return 8
		case types.Uint16:
			return 16
		}
	}
	return 0
}
