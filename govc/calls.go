package main

import (
	"sort"
	"fmt"
	"go/ast"
	"go/constant"
	"go/token"
	"go/types"
	"regexp"
	"strings"
)

func (env *Env) call(x *ast.CallExpr) Val {
	if !env.code {
		return env.specCall(x)
	}
	info := env.info()
	// conversion
	if tv, ok := info.Types[x.Fun]; ok && tv.IsType() {
		return env.conversion(tv.Type, x.Args[0], x.Pos())
	}
	// builtin
	if id, ok := unparen(x.Fun).(*ast.Ident); ok {
		if b, ok := info.ObjectOf(id).(*types.Builtin); ok {
			return env.builtin(b.Name(), x)
		}
	}
	if env.globalInit {
		// regexp.MustCompile on a literal pattern: the number of capture groups is computed with the real library
		if se, ok := unparen(x.Fun).(*ast.SelectorExpr); ok && se.Sel.Name == "MustCompile" && len(x.Args) == 1 {
			if tv, ok := info.Types[x.Args[0]]; ok && tv.Value != nil && tv.Value.Kind() == constant.String {
				if re, err := regexp.Compile(constant.StringVal(tv.Value)); err == nil {
					t := env.typeOf(x)
					r := env.c.fresh("regexp", env.ss().SortOf(t))
					env.c.declOnce(fmt.Sprintf("(declare-fun numSubexp (%s) Int)", r.Sort))
					env.st.Assume(eq(app("numSubexp", r.S), fmt.Sprint(re.NumSubexp())))
					env.st.Assume(app(r.Sort+".nonnil", r.S))
					return Val{T: r, GoT: t}
				}
			}
		}
		t := env.typeOf(x)
		if t == nil {
			env.fail(x.Pos(), "call in initializer")
		}
		if _, ok := t.(*types.Tuple); ok {
			env.fail(x.Pos(), "tuple call in initializer")
		}
		r := env.c.fresh("init", env.ss().SortOf(t))
		env.st.Assume(env.c.typeFacts(r, t))
		return Val{T: r, GoT: t}
	}
	var fn *types.Func
	var recvExpr ast.Expr
	switch f := unparen(x.Fun).(type) {
	case *ast.Ident:
		fn, _ = info.ObjectOf(f).(*types.Func)
	case *ast.SelectorExpr:
		if sel, ok := info.Selections[f]; ok {
			switch sel.Kind() {
			case types.MethodVal:
				fn, _ = sel.Obj().(*types.Func)
				recvExpr = f.X
			case types.FieldVal:
				// call through a func-typed field
				key := exprString(f)
				if ts, ok := env.c.spec.Calls[key]; ok && len(ts) >= 1 {
					tkey := env.c.spec.Pkg + "." + ts[0]
					fi := env.c.eng.Funcs[tkey]
					if fi == nil {
						env.fail(x.Pos(), "calls target %s not found", tkey)
					}
					fn = fi.Obj
				} else {
					env.fail(x.Pos(), "call through func-typed field %s without a 'calls' clause", key)
				}
			}
		} else {
			fn, _ = info.ObjectOf(f.Sel).(*types.Func)
		}
	}
	if fn == nil {
		env.fail(x.Pos(), "unsupported call target %s", exprString(x.Fun))
	}
	key := env.c.eng.keyOfFunc(fn)
	spec := env.c.eng.Contracts.Funcs[key]
	if spec == nil {
		if v, ok := env.dispatchIface(x, fn, recvExpr); ok {
			return v
		}
		if v, ok := env.inlineCall(x, fn, key, recvExpr); ok {
			return v
		}
		if v, ok := env.abstractExternalCall(x, fn, key, recvExpr); ok {
			return v
		}
		env.fail(x.Pos(), "call to %s which has no contract", key)
	}
	return env.callSpec(x, fn, spec, recvExpr)
}

func unparen(e ast.Expr) ast.Expr {
	for {
		p, ok := e.(*ast.ParenExpr)
		if !ok {
			return e
		}
		e = p.X
	}
}

func exprString(e ast.Expr) string {
	switch x := e.(type) {
	case *ast.Ident:
		return x.Name
	case *ast.SelectorExpr:
		return exprString(x.X) + "." + x.Sel.Name
	case *ast.StarExpr:
		return "*" + exprString(x.X)
	case *ast.ParenExpr:
		return "(" + exprString(x.X) + ")"
	case *ast.IndexExpr:
		return exprString(x.X) + "[...]"
	case *ast.CallExpr:
		return exprString(x.Fun) + "(...)"
	}
	return fmt.Sprintf("%T", e)
}

// specParamNames flattens receiver and parameter names of a contract header.
func specParamNames(fd *ast.FuncDecl) (recv string, params []string, variadic bool, results []string) {
	if fd.Recv != nil && len(fd.Recv.List) > 0 && len(fd.Recv.List[0].Names) > 0 {
		recv = fd.Recv.List[0].Names[0].Name
	}
	if fd.Type.Params != nil {
		for _, f := range fd.Type.Params.List {
			if _, ok := f.Type.(*ast.Ellipsis); ok {
				variadic = true
			}
			if len(f.Names) == 0 {
				params = append(params, "_")
			}
			for _, n := range f.Names {
				params = append(params, n.Name)
			}
		}
	}
	if fd.Type.Results != nil {
		for _, f := range fd.Type.Results.List {
			if len(f.Names) == 0 {
				results = append(results, "")
			}
			for _, n := range f.Names {
				results = append(results, n.Name)
			}
		}
	}
	return
}

func (c *FnCtx) callOrdinal(x *ast.CallExpr, name string) string {
	if s, ok := c.callOrd[x]; ok {
		return s
	}
	c.siteOrd["call:"+name]++
	s := fmt.Sprintf("%s#%d", name, c.siteOrd["call:"+name])
	c.callOrd[x] = s
	return s
}

func shortKey(key string) string {
	// seccomp.Program.LdHi -> Program.LdHi ; strings.HasPrefix -> strings.HasPrefix
	return key
}

// callSpec performs a call by contract.
func (env *Env) callSpec(x *ast.CallExpr, fn *types.Func, spec *FuncSpec, recvExpr ast.Expr) Val {
	c := env.c
	sig := fn.Type().(*types.Signature)
	recvName, pnames, _, rnames := specParamNames(spec.Decl)
	ord := c.callOrdinal(x, strings.TrimPrefix(spec.Key, c.spec.Pkg+"."))
	// ghost statements, lemma uses and assertions attached to EVERY call of this callee ("before call F#*"): they can
	// refer to the call's arguments as call.arg0, call.arg1, ... and so do not depend on the order of the call sites
	if star := "before call " + ord[:strings.LastIndex(ord, "#")] + "#*"; c.hasSite(star) {
		save := env.nosafe
		env.nosafe = true
		var bound []string
		func() {
			defer func() {
				if r := recover(); r != nil {
					if _, ok := r.(unsupportedErr); !ok {
						panic(r)
					}
				}
			}()
			for i, a := range x.Args {
				v := env.eval(a)
				if v.Loc == nil && v.T.S != "" {
					k := fmt.Sprintf("call.arg%d", i)
					env.st.spec[k] = Val{T: v.T, GoT: v.GoT, Const: v.Const}
					bound = append(bound, k)
				}
			}
		}()
		env.nosafe = save
		c.runGhosts(env.st, star, x.Pos())
		for _, k := range bound {
			delete(env.st.spec, k)
		}
	}
	c.runGhosts(env.st, "before call "+ord, x.Pos())

	type argInfo struct {
		name string
		val  Val
		expr ast.Expr
		typ  types.Type
		loc  *Loc // write-back location for pointer args
	}
	var args []argInfo
	// receiver
	ro := env.recvOverride
	env.recvOverride = nil
	if sig.Recv() != nil && recvExpr != nil {
		rt := sig.Recv().Type()
		et := env.typeOf(recvExpr)
		ai := argInfo{name: recvName, expr: recvExpr, typ: rt}
		_, wantPtr := rt.Underlying().(*types.Pointer)
		_, havePtr := et.Underlying().(*types.Pointer)
		if _, isIface := rt.Underlying().(*types.Interface); isIface {
			wantPtr = false
		}
		switch {
		case ro != nil:
			// interface dispatch: the receiver is the unboxed dynamic value (value receivers only)
			if wantPtr {
				env.fail(x.Pos(), "interface dispatch to a pointer-receiver method of %s", spec.Key)
			}
			ai.val = *ro
		case wantPtr && !havePtr:
			l := env.lvalue(recvExpr)
			ai.val = Val{Loc: l, GoT: rt}
			ai.loc = l
		case wantPtr && havePtr:
			ai.val = env.eval(recvExpr)
			if ai.val.Loc != nil {
				ai.loc = ai.val.Loc
			} else if isAddressable(recvExpr) {
				ai.loc = env.lvalueBase(recvExpr)
			}
		case !wantPtr && havePtr:
			ai.val = env.deref(env.eval(recvExpr), recvExpr.Pos())
		default:
			ai.val = env.eval(recvExpr)
		}
		args = append(args, ai)
	}
	// parameters
	np := sig.Params().Len()
	for i := 0; i < np; i++ {
		pt := sig.Params().At(i).Type()
		name := "_"
		if i < len(pnames) {
			name = pnames[i]
		}
		if sig.Variadic() && i == np-1 {
			// pack the remaining arguments
			if x.Ellipsis.IsValid() {
				v := env.eval(x.Args[i])
				args = append(args, argInfo{name: name, val: v, expr: x.Args[i], typ: pt})
			} else {
				st := pt.(*types.Slice)
				sort := env.ss().SortOf(pt)
				si := env.ss().Info(sort)
				z := c.zero(si.Elem, si.GoElem)
				arr := fmt.Sprintf("((as const (Array Int %s)) %s)", si.Elem, z.S)
				n := 0
				for j := i; j < len(x.Args); j++ {
					v := env.convertVal(env.eval(x.Args[j]), env.typeOf(x.Args[j]), st.Elem(), x.Args[j].Pos())
					arr = app("store", arr, fmt.Sprint(n), env.term(v, x.Args[j].Pos()).S)
					n++
				}
				args = append(args, argInfo{name: name, val: Val{T: env.ss().mkSlice(sort, arr, fmt.Sprint(n), "true"), GoT: pt}, typ: pt})
			}
			break
		}
		if i >= len(x.Args) {
			env.fail(x.Pos(), "argument count mismatch calling %s", spec.Key)
		}
		v := env.eval(x.Args[i])
		ai := argInfo{name: name, expr: x.Args[i], typ: pt}
		if v.Loc != nil {
			ai.loc = v.Loc
			ai.val = v
		} else {
			ai.val = env.convertVal(v, env.typeOf(x.Args[i]), pt, x.Args[i].Pos())
			if _, isPtr := pt.Underlying().(*types.Pointer); isPtr && isAddressable(x.Args[i]) {
				ai.loc = env.lvalueBase(x.Args[i])
			}
		}
		args = append(args, ai)
	}
	// pre-state names
	pre := map[string]Val{}
	for _, a := range args {
		t := env.term(a.val, x.Pos())
		pre[a.name] = Val{T: t, GoT: a.typ}
	}
	calleePkg := c.eng.PkgByName[spec.Pkg]
	preEnv := &Env{c: c, st: env.st, names: pre, pkg: calleePkg, foreign: true}
	// the callee's lets are evaluated in the pre-state
	for _, l := range spec.Lets {
		v := preEnv.evalSpecString(l.Expr)
		if v.Loc == nil {
			v = Val{T: c.nameTerm(env.st, l.Name, preEnv.term(v, x.Pos())), Const: v.Const}
		}
		pre[l.Name] = v
	}
	props := c.spec.Props
	for i, r := range spec.Requires {
		lbl := r.Label
		if lbl == "" {
			lbl = fmt.Sprintf("r%d", i+1)
		}
		g := preEnv.evalSpecBool(r)
		save := c.curPos
		c.curPos = x.Pos()
		c.oblige(env.st, "pre@"+ord, lbl, g, props, r.Expr)
		c.curPos = save
	}
	if spec.NoReturn {
		// the callee never returns (os.Exit, log.Fatal): its preconditions were checked, the path ends here
		c.runGhosts(env.st, "at noreturn "+ord, x.Pos())
		env.st.dead = true
		sigr := fn.Type().(*types.Signature).Results()
		if sigr.Len() == 0 {
			return Val{}
		}
		env.fail(x.Pos(), "noreturn function with results")
	}
	// snapshot for old()
	oldSt := env.st
	modGhost := false
	for _, m := range spec.Modifies {
		if strings.HasPrefix(m, "ghost.") {
			modGhost = true
		}
	}
	if modGhost {
		oldSt = env.st.Clone()
	}
	oldEnv := &Env{c: c, st: oldSt, names: pre, pkg: calleePkg, foreign: true}
	// post-state
	post := map[string]Val{}
	for k, v := range pre {
		post[k] = v
	}
	type wb struct {
		loc *Loc
		val Term
	}
	var wbs []wb
	for _, m := range spec.Modifies {
		if strings.HasPrefix(m, "ghost.") {
			old, ok := env.st.spec[m]
			if !ok {
				env.fail(x.Pos(), "callee modifies unknown ghost %s", m)
			}
			nv := c.fresh(m, old.T.Sort)
			env.st.spec[m] = Val{T: nv}
			continue
		}
		var ai *argInfo
		for k := range args {
			if args[k].name == m {
				ai = &args[k]
			}
		}
		if ai == nil && fn.Pkg() != nil {
			// a package-level variable of the callee's package: its value after the call is whatever the callee's
			// postconditions say about it, otherwise unknown
			if gv, ok := fn.Pkg().Scope().Lookup(m).(*types.Var); ok {
				nv := c.fresh("g."+m+"_post", env.ss().SortOf(gv.Type()))
				env.st.Assume(c.typeFacts(nv, gv.Type()))
				env.st.vars[gv] = nv
				continue
			}
		}
		if ai == nil {
			env.fail(x.Pos(), "modifies %s: no such parameter in contract of %s", m, spec.Key)
		}
		pv := pre[m].T
		si := env.ss().Info(pv.Sort)
		if (si == nil || si.Kind != KSlice) && ai.expr != nil {
			// a slice handed over as interface{} (sort.Slice, sort.SliceStable): the callee writes the elements of that slice
			if at := env.typeOf(ai.expr); at != nil {
				if _, isSl := at.Underlying().(*types.Slice); isSl {
					save := env.nosafe
					env.nosafe = true
					sv := env.term(env.eval(ai.expr), x.Pos())
					env.nosafe = save
					if ssi := env.ss().Info(sv.Sort); ssi != nil && ssi.Kind == KSlice {
						pv, si = sv, ssi
					}
				}
			}
		}
		if si != nil && si.Kind == KSlice {
			// the callee writes the elements of a slice argument in place (e.g. sort.Strings): same length, new content
			narr := c.fresh(m+"_post", fmt.Sprintf("(Array Int %s)", si.Elem))
			ns := env.ss().mkSlice(pv.Sort, narr.S, env.ss().slLen(pv).S, env.ss().slOwn(pv))
			if pre[m].T.Sort == pv.Sort {
				post[m] = Val{T: ns, GoT: ai.typ}
			}
			if ai.expr != nil && isAddressable(ai.expr) {
				if !env.rootInModifies(ai.expr) {
					env.safe("frame:call", x.Pos(), env.ss().slOwn(pv), "slice handed to a callee that writes its elements is owned by this call or listed in modifies")
				}
				wbs = append(wbs, wb{env.lvalue(ai.expr), ns})
			} else {
				c.unsupported(x.Pos(), "callee %s writes the elements of %s but the argument is not an addressable location", spec.Key, m)
			}
			continue
		}
		if si == nil || si.Kind != KPtr {
			env.fail(x.Pos(), "modifies %s: not a pointer parameter", m)
		}
		nv := c.fresh(m+"_post", si.Elem)
		env.st.Assume(c.typeFacts(nv, si.GoElem))
		post[m] = Val{T: Term{app(si.Ctor, app(pv.Sort+".nonnil", pv.S), nv.S), pv.Sort}, GoT: ai.typ}
		if ai.loc != nil {
			wbs = append(wbs, wb{ai.loc, nv})
		} else {
			// modification of an object we cannot track
			c.unsupported(x.Pos(), "callee %s modifies %s but the argument is not an addressable location", spec.Key, m)
		}
	}
	// results
	var results []Val
	for i := 0; i < sig.Results().Len(); i++ {
		rt := sig.Results().At(i).Type()
		r := c.fresh("r_"+fn.Name(), env.ss().SortOf(rt))
		env.st.Assume(c.typeFacts(r, rt))
		v := Val{T: r, GoT: rt}
		results = append(results, v)
		post[fmt.Sprintf("result%d", i)] = v
		if i < len(rnames) && rnames[i] != "" {
			post[rnames[i]] = v
		}
	}
	if len(results) == 1 {
		post["result"] = results[0]
	}
	// returns_elem: result is nil or a pointer to an element of the named slice argument
	var retLoc *Loc
	if spec.RetElem != "" && len(results) == 1 {
		var ai *argInfo
		for k := range args {
			if args[k].name == spec.RetElem {
				ai = &args[k]
			}
		}
		if ai == nil || ai.expr == nil || !isAddressable(ai.expr) {
			env.fail(x.Pos(), "returns_elem %s: argument must be an addressable slice", spec.RetElem)
		}
		base := env.lvalue(ai.expr)
		k := c.fresh("elem_idx", SInt)
		isnil := c.fresh("elem_nil", SBool)
		retLoc = &Loc{Root: base.Root, Path: append(append([]PathElem(nil), base.Path...), PathElem{Kind: "index", Idx: k}), NilCond: isnil.S, Ver: env.st.vers[base.Root]}
		ln := env.ss().slLen(pre[spec.RetElem].T)
		env.st.Assume(implies(not(isnil.S), and(app("<=", "0", k.S), app("<", k.S, ln.S))))
		post["result"] = Val{Loc: retLoc}
		post["result0"] = post["result"]
	}
	postEnv := &Env{c: c, st: env.st, names: post, old: oldEnv, pkg: calleePkg, foreign: true}
	for _, en := range spec.Ensures {
		env.st.AssumeFor(postEnv.evalSpecBool(en), en)
	}
	// write back modified pointees
	for _, w := range wbs {
		env.writeLoc(w.loc, w.val, x.Pos(), false)
	}
	c.runGhosts(env.st, "after call "+ord, x.Pos())
	// items attached to every call of this callee ("after call F#*"): the arguments as evaluated before the call
	if star := "after call " + ord[:strings.LastIndex(ord, "#")] + "#*"; c.hasSite(star) {
		var bound []string
		ai := 0
		for _, a := range args {
			if a.expr == nil || (sig.Recv() != nil && recvExpr != nil && a.expr == recvExpr) {
				continue
			}
			if a.val.Loc == nil && a.val.T.S != "" {
				k := fmt.Sprintf("call.arg%d", ai)
				env.st.spec[k] = Val{T: a.val.T, GoT: a.val.GoT, Const: a.val.Const}
				bound = append(bound, k)
			}
			ai++
		}
		c.runGhosts(env.st, star, x.Pos())
		for _, k := range bound {
			delete(env.st.spec, k)
		}
	}
	// crash points: after every effect on ghost state that a crash invariant mentions, the invariant must hold
	for i, ci := range c.spec.CrashInv {
		touched := false
		for _, m := range spec.Modifies {
			if strings.HasPrefix(m, "ghost.") && strings.Contains(ci.Expr, m) {
				touched = true
			}
		}
		if !touched {
			continue
		}
		var g string
		c.guarded(env.st, func() { g = c.specEnvAt(env.st, x.Pos()).evalSpecBool(ci) })
		if env.st.dead {
			break
		}
		lbl := ci.Label
		if lbl == "" {
			lbl = fmt.Sprintf("ci%d", i+1)
		}
		props := ci.Props
		if props == nil {
			props = c.spec.Props
		}
		save := c.curPos
		c.curPos = x.Pos()
		c.oblige(env.st, "crash", lbl+"@"+ord, g, props, ci.Expr+"  (crash point after "+ord+")")
		c.curPos = save
	}
	if retLoc != nil {
		return Val{Loc: retLoc, GoT: sig.Results().At(0).Type()}
	}
	switch len(results) {
	case 0:
		return Val{}
	case 1:
		return results[0]
	}
	return Val{Tuple: results}
}

func isAddressable(e ast.Expr) bool {
	switch x := unparen(e).(type) {
	case *ast.Ident:
		return x.Name != "nil"
	case *ast.SelectorExpr:
		return isAddressable(x.X)
	case *ast.IndexExpr:
		return isAddressable(x.X)
	case *ast.StarExpr:
		return isAddressable(x.X)
	case *ast.UnaryExpr:
		return x.Op == token.AND && isAddressable(x.X)
	}
	return false
}

// writeLoc stores v at the location.
func (env *Env) writeLoc(l *Loc, v Term, pos token.Pos, bump bool) {
	root := env.rootTerm(l.Root, pos)
	nv := env.writePath(root, l.Path, v, pos)
	env.st.vars[l.Root] = env.c.nameTerm(env.st, l.Root.Name(), nv)
	if bump {
		env.st.vers[l.Root]++
	}
}

// nameTerm introduces a fresh constant for a large term (SSA style).
func (c *FnCtx) nameTerm(st *State, hint string, t Term) Term {
	if len(t.S) < 48 {
		return t
	}
	n := c.fresh(hint, t.Sort)
	st.Assume(eq(n.S, t.S))
	return n
}

// ---- builtins ----

func (env *Env) builtin(name string, x *ast.CallExpr) Val {
	ss := env.ss()
	switch name {
	case "len":
		v := env.eval(x.Args[0])
		return env.lenOf(env.term(v, x.Pos()), x.Pos())
	case "cap":
		v := env.term(env.eval(x.Args[0]), x.Pos())
		if si := ss.Info(v.Sort); si != nil && si.Kind == KSlice {
			return Val{T: env.capOf(v)}
		}
		env.fail(x.Pos(), "cap of %s", v.Sort)
	case "append":
		return env.appendCall(x)
	case "make":
		t := env.typeOf(x)
		sort := ss.SortOf(t)
		si := ss.Info(sort)
		if si == nil {
			env.fail(x.Pos(), "make of %s (channels and other unmodelled types are outside the subset)", exprString(x.Args[0]))
		}
		switch si.Kind {
		case KSlice:
			n := env.toIntIndex(env.eval(x.Args[1]), x.Pos())
			env.safe("safe:make", x.Pos(), app("<=", "0", n.S), "make length is non-negative")
			if len(x.Args) > 2 {
				cp := env.toIntIndex(env.eval(x.Args[2]), x.Pos())
				env.safe("safe:make", x.Args[2].Pos(), app("<=", n.S, cp.S), "make length does not exceed capacity")
			}
			z := env.c.zero(si.Elem, si.GoElem)
			return Val{T: ss.mkSlice(sort, fmt.Sprintf("((as const (Array Int %s)) %s)", si.Elem, z.S), n.S, "true"), GoT: t}
		case KMap:
			if len(x.Args) > 1 {
				env.eval(x.Args[1])
			}
			z := env.c.zero(sort, t)
			return Val{T: Term{app(si.Ctor, app(sort+".has", z.S), app(sort+".val", z.S), "0", "true"), sort}, GoT: t}
		}
		env.fail(x.Pos(), "make of %s", sort)
	case "new":
		t := env.typeOf(x)
		sort := ss.SortOf(t)
		si := ss.Info(sort)
		return Val{T: Term{app(si.Ctor, "true", env.c.zero(si.Elem, si.GoElem).S), sort}, GoT: t}
	case "delete":
		l := env.lvalue(x.Args[0])
		m := env.readLoc(l, x.Pos())
		si := ss.Info(m.Sort)
		k := env.convertVal(env.eval(x.Args[1]), env.typeOf(x.Args[1]), si.GoKey, x.Pos())
		has := app(m.Sort+".has", m.S)
		card := app(m.Sort+".card", m.S)
		nm := Term{app(si.Ctor, app("store", has, k.T.S, "false"), app(m.Sort+".val", m.S),
			ite(app("select", has, k.T.S), app("-", card, "1"), card), app(m.Sort+".nonnil", m.S)), m.Sort}
		env.writeLoc(l, nm, x.Pos(), false)
		return Val{}
	case "copy":
		return env.copyCall(x)
	case "panic":
		env.safe("safe:panic", x.Pos(), "false", "explicit panic is unreachable")
		env.st.dead = true
		return Val{}
	}
	env.fail(x.Pos(), "unsupported builtin %s", name)
	return Val{}
}

func (env *Env) lenOf(v Term, pos token.Pos) Val {
	ss := env.ss()
	if v.Sort == SString {
		return Val{T: Term{app("str.len", v.S), SInt}}
	}
	si := ss.Info(v.Sort)
	if si == nil {
		env.fail(pos, "len of %s", v.Sort)
	}
	switch si.Kind {
	case KSlice:
		l := ss.slLen(v)
		env.st.Assume(and(app("<=", "0", l.S), app("<=", l.S, MAXLEN)))
		return Val{T: l}
	case KMap:
		card := app(v.Sort+".card", v.S)
		env.st.Assume(and(app("<=", "0", card), app("<=", card, MAXLEN)))
		return Val{T: Term{card, SInt}}
	case KArray:
		return Val{T: tInt(si.N)}
	case KPtr:
		inner := ss.Info(si.Elem)
		if inner != nil && inner.Kind == KArray {
			return Val{T: tInt(inner.N)}
		}
	}
	env.fail(pos, "len of %s", v.Sort)
	return Val{}
}

// frameOK reports whether writes below the expression's root are allowed by the contract
// without an ownership obligation (root is a parameter listed in modifies).
func (env *Env) rootInModifies(e ast.Expr) bool {
	root := rootIdent(e)
	if root == nil {
		return false
	}
	obj := env.c.resolveAlias(env.info().ObjectOf(root))
	for _, m := range env.c.spec.Modifies {
		if o, ok := env.c.specNames[m]; ok && o == obj {
			return true
		}
	}
	return false
}

func rootIdent(e ast.Expr) *ast.Ident {
	switch x := unparen(e).(type) {
	case *ast.Ident:
		return x
	case *ast.SelectorExpr:
		return rootIdent(x.X)
	case *ast.IndexExpr:
		return rootIdent(x.X)
	case *ast.SliceExpr:
		return rootIdent(x.X)
	case *ast.StarExpr:
		return rootIdent(x.X)
	}
	return nil
}

func (env *Env) appendCall(x *ast.CallExpr) Val {
	ss := env.ss()
	rt := env.typeOf(x)
	sort := ss.SortOf(rt)
	_ = ss.Info(sort)
	base := env.eval(x.Args[0])
	var s Term
	if base.IsNil {
		s = env.c.zero(sort, rt)
	} else {
		s = env.term(base, x.Pos())
	}
	if s.Sort != sort {
		env.fail(x.Pos(), "append base sort %s != %s", s.Sort, sort)
	}
	ln := ss.slLen(s)
	env.st.Assume(and(app("<=", "0", ln.S), app("<=", ln.S, MAXLEN)))
	// frame: appending may write into the spare capacity of the base's backing array
	if !env.rootInModifies(x.Args[0]) {
		env.safe("frame:append", x.Pos(), ss.slOwn(s), "append target's backing array is owned by this call (fresh) or listed in modifies")
	}
	elemT := rt.Underlying().(*types.Slice).Elem()
	if x.Ellipsis.IsValid() {
		tv := env.eval(x.Args[1])
		t := env.term(tv, x.Pos())
		if t.Sort == SString {
			env.fail(x.Pos(), "append of string bytes")
		}
		lt := ss.slLen(t)
		env.st.Assume(and(app("<=", "0", lt.S), app("<=", lt.S, MAXLEN)))
		// result: a fresh slice r with the named concatenation predicate (opaque but congruent in the QF stage)
		r := env.c.fresh("cat", sort)
		sN := env.c.nameTerm(env.st, "catl", s)
		tN := env.c.nameTerm(env.st, "catr", t)
		env.st.Assume(app(ss.CatPred(sort), r.S, sN.S, tN.S))
		env.st.Assume(ss.slOwn(r))
		return Val{T: r, GoT: rt}
	}
	arr := ss.slArr(s)
	n := 0
	for _, a := range x.Args[1:] {
		v := env.convertVal(env.eval(a), env.typeOf(a), elemT, a.Pos())
		idx := ln.S
		if n > 0 {
			idx = app("+", ln.S, fmt.Sprint(n))
		}
		arr = app("store", arr, idx, env.term(v, a.Pos()).S)
		n++
	}
	nl := ln.S
	if n > 0 {
		nl = app("+", ln.S, fmt.Sprint(n))
	}
	return Val{T: ss.mkSlice(sort, arr, nl, "true"), GoT: rt}
}

func (env *Env) copyCall(x *ast.CallExpr) Val {
	ss := env.ss()
	src := env.term(env.eval(x.Args[1]), x.Pos())
	if src.Sort == SString {
		env.fail(x.Pos(), "copy from string")
	}
	ls := ss.slLen(src)
	// destination: X[:] of an array variable, or a slice lvalue
	var dstLoc *Loc
	var dstLen Term
	var dstArr string
	isArray := false
	if se, ok := unparen(x.Args[0]).(*ast.SliceExpr); ok && se.Low == nil && se.High == nil {
		dstLoc = env.lvalue(se.X)
		cur := env.readLoc(dstLoc, x.Pos())
		si := ss.Info(cur.Sort)
		if si != nil && si.Kind == KArray {
			isArray = true
			dstLen = tInt(si.N)
			dstArr = cur.S
		}
	}
	if !isArray {
		dstLoc = env.lvalue(x.Args[0])
		cur := env.readLoc(dstLoc, x.Pos())
		si := ss.Info(cur.Sort)
		if si == nil || si.Kind != KSlice {
			env.fail(x.Pos(), "copy destination %s", cur.Sort)
		}
		dstLen = ss.slLen(cur)
		dstArr = ss.slArr(cur)
		if !env.rootInModifies(x.Args[0]) {
			env.safe("frame:copy", x.Pos(), ss.slOwn(cur), "copy destination is owned or listed in modifies")
		}
	}
	n := env.c.fresh("ncopy", SInt)
	env.st.Assume(eq(n.S, ite(app("<", dstLen.S, ls.S), dstLen.S, ls.S)))
	cur := env.readLocNoCheck(dstLoc)
	var elem string
	if isArray {
		elem = ss.Info(cur.Sort).Elem
	} else {
		elem = ss.Info(cur.Sort).Elem
	}
	arr := env.c.fresh("copied", fmt.Sprintf("(Array Int %s)", elem))
	q := fmt.Sprintf("(forall ((j!q Int)) (! (= (select %s j!q) (ite (and (<= 0 j!q) (< j!q %s)) (select %s j!q) (select %s j!q))) :pattern ((select %s j!q))))",
		arr.S, n.S, ss.slArr(src), dstArr, arr.S)
	env.st.Assume(q)
	if isArray {
		env.writeLoc(dstLoc, Term{arr.S, cur.Sort}, x.Pos(), false)
	} else {
		env.writeLoc(dstLoc, ss.mkSlice(cur.Sort, arr.S, dstLen.S, ss.slOwn(cur)), x.Pos(), false)
	}
	return Val{T: n}
}

// ---- contract-mode calls ----

func (env *Env) evalSpecBool(cl Clause) string {
	e, err := ParseSpecExpr(cl.Expr)
	if err != nil {
		panic(unsupportedErr{fmt.Sprintf("%s:%d: %v", shortPath(cl.File), cl.Line, err)})
	}
	defer func() {
		if r := recover(); r != nil {
			if u, ok := r.(unsupportedErr); ok {
				panic(unsupportedErr{fmt.Sprintf("%s:%d: %s", shortPath(cl.File), cl.Line, u.msg)})
			}
			panic(r)
		}
	}()
	v := env.eval(e)
	t := env.term(v, token.NoPos)
	if t.Sort != SBool {
		env.fail(token.NoPos, "contract clause is not boolean (sort %s): %s", t.Sort, cl.Expr)
	}
	return t.S
}

func (env *Env) evalSpecString(s string) Val {
	e, err := ParseSpecExpr(s)
	if err != nil {
		panic(unsupportedErr{err.Error()})
	}
	return env.eval(e)
}

func (env *Env) specCall(x *ast.CallExpr) Val {
	ss := env.ss()
	name := ""
	switch f := x.Fun.(type) {
	case *ast.Ident:
		name = f.Name
	case *ast.SelectorExpr:
		// pkg.Type(x) conversion, or pkg-qualified name
		v := env.eval(f)
		if v.T.Sort == "Type" {
			return env.specConv(v.GoT, x)
		}
		env.fail(x.Pos(), "contract: unsupported call %s", exprString(x.Fun))
	default:
		env.fail(x.Pos(), "contract: unsupported call form")
	}
	arg := func(i int) Val {
		if i >= len(x.Args) {
			env.fail(x.Pos(), "contract: %s needs more arguments", name)
		}
		return env.eval(x.Args[i])
	}
	switch name {
	case "old":
		if env.old == nil {
			env.fail(x.Pos(), "old() not available here")
		}
		o := *env.old
		o.bound = env.bound
		return o.eval(x.Args[0])
	case "implies":
		a, b := arg(0), arg(1)
		return Val{T: Term{implies(a.T.S, b.T.S), SBool}}
	case "iff":
		a, b := arg(0), arg(1)
		return Val{T: Term{eq(a.T.S, b.T.S), SBool}}
	case "ite":
		cnd, a, b := arg(0), arg(1), arg(2)
		if a.T.Sort != b.T.Sort {
			if a.Const != nil {
				a = env.coerce(a, b.T.Sort)
			} else {
				b = env.coerce(b, a.T.Sort)
			}
		}
		return Val{T: Term{ite(cnd.T.S, a.T.S, b.T.S), a.T.Sort}}
	case "forall", "exists":
		// forall(i, lo, hi, body)  : lo <= i < hi ; forallx(i, Sort, body)
		id, ok := x.Args[0].(*ast.Ident)
		if !ok || (len(x.Args) != 4 && len(x.Args) != 5) {
			env.fail(x.Pos(), "contract: %s(i, lo, hi, body [, trig(terms)])", name)
		}
		lo := env.coerce(arg(1), SInt)
		hi := env.coerce(arg(2), SInt)
		bv := id.Name + "!b"
		sub := *env
		sub.bound = map[string]Term{}
		for k, v := range env.bound {
			sub.bound[k] = v
		}
		sub.bound[id.Name] = Term{bv, SInt}
		body := sub.eval(x.Args[3])
		rng := and(app("<=", lo.T.S, bv), app("<", bv, hi.T.S))
		if name == "forall" && len(x.Args) == 5 {
			// explicit instantiation pattern: trig(t1, t2, ...) - the terms must mention the bound variable
			tc, ok := x.Args[4].(*ast.CallExpr)
			if fid, isId := tc.Fun.(*ast.Ident); !ok || !isId || fid.Name != "trig" || len(tc.Args) == 0 {
				env.fail(x.Pos(), "contract: fifth argument of forall is trig(terms)")
			}
			var pats []string
			for _, ta := range tc.Args {
				pv := sub.eval(ta)
				pats = append(pats, sub.term(pv, x.Pos()).S)
			}
			return Val{T: Term{fmt.Sprintf("(forall ((%s Int)) (! (=> %s %s) :pattern (%s) :qid %s))", bv, rng, body.T.S, strings.Join(pats, " "), qidOf(x, env)), SBool}}
		}
		if name == "forall" {
			return Val{T: Term{fmt.Sprintf("(forall ((%s Int)) (! (=> %s %s) :qid %s))", bv, rng, body.T.S, qidOf(x, env)), SBool}}
		}
		return Val{T: Term{fmt.Sprintf("(exists ((%s Int)) (and %s %s))", bv, rng, body.T.S), SBool}}
	case "forallk", "existsk":
		// forallk(k, m, body): quantifies over the keys of the key sort of map m (body typically mentions has(m,k))
		id, ok := x.Args[0].(*ast.Ident)
		if !ok || len(x.Args) != 3 {
			env.fail(x.Pos(), "contract: %s(k, sortOrMap, body)", name)
		}
		var ksort string
		if sid, ok := x.Args[1].(*ast.BasicLit); ok && sid.Kind == token.STRING {
			ksort = strings.Trim(sid.Value, `"`)
		} else {
			m := env.term(arg(1), x.Pos())
			si := ss.Info(m.Sort)
			if si == nil || si.Kind != KMap {
				env.fail(x.Pos(), "contract: %s over non-map", name)
			}
			ksort = si.Key
		}
		bv := id.Name + "!b"
		sub := *env
		sub.bound = map[string]Term{}
		for k, v := range env.bound {
			sub.bound[k] = v
		}
		sub.bound[id.Name] = Term{bv, ksort}
		body := sub.eval(x.Args[2])
		q := "forall"
		if name == "existsk" {
			q = "exists"
		}
		return Val{T: Term{fmt.Sprintf("(%s ((%s %s)) %s)", q, bv, ksort, body.T.S), SBool}}
	case "len":
		return env.lenOfSpec(env.term(arg(0), x.Pos()), x.Pos())
	case "has":
		m := env.term(arg(0), x.Pos())
		si := ss.Info(m.Sort)
		if si == nil || si.Kind != KMap {
			env.fail(x.Pos(), "has() on %s", m.Sort)
		}
		k := env.coerce(arg(1), si.Key)
		return Val{T: Term{app("select", app(m.Sort+".has", m.S), k.T.S), SBool}}
	case "card":
		m := env.term(arg(0), x.Pos())
		return Val{T: Term{app(m.Sort+".card", m.S), SInt}}
	case "own":
		s := env.term(arg(0), x.Pos())
		return Val{T: Term{ss.slOwn(s), SBool}}
	case "arr":
		// arr(s): the content of slice s as an array (for ghost snapshots of a slice's elements)
		s := env.term(arg(0), x.Pos())
		si := ss.Info(s.Sort)
		if si == nil || si.Kind != KSlice {
			env.fail(x.Pos(), "arr of non-slice %s", s.Sort)
		}
		return Val{T: Term{ss.slArr(s), fmt.Sprintf("(Array Int %s)", si.Elem)}}
	case "idx":
		v := arg(0)
		if v.Loc == nil || len(v.Loc.Path) == 0 || v.Loc.Path[len(v.Loc.Path)-1].Kind != "index" {
			env.fail(x.Pos(), "idx() of a value that is not an element pointer")
		}
		return Val{T: v.Loc.Path[len(v.Loc.Path)-1].Idx}
	case "istype", "unbox":
		v := env.term(arg(0), x.Pos())
		tv := arg(1)
		if tv.T.Sort != "Type" {
			env.fail(x.Pos(), "%s needs a type as second argument", name)
		}
		ts := ss.SortOf(tv.GoT)
		si := ss.Info(v.Sort)
		if si == nil || si.Kind != KIface {
			env.fail(x.Pos(), "%s on non-interface sort %s", name, v.Sort)
		}
		for _, b := range si.Boxes {
			if b.Sort == ts {
				if name == "istype" {
					return Val{T: Term{app("(_ is "+b.Ctor+")", v.S), SBool}}
				}
				return Val{T: Term{app(b.Sel, v.S), ts}, GoT: tv.GoT}
			}
		}
		env.fail(x.Pos(), "%s: type %s not registered for %s", name, ts, v.Sort)
	case "iserrno":
		v := env.term(arg(0), x.Pos())
		return Val{T: Term{app("(_ is I.error.errno)", v.S), SBool}}
	case "errno":
		v := env.term(arg(0), x.Pos())
		return Val{T: Term{app("I.error.errno.code", v.S), SBV64}}
	case "iscat":
		r, a, b := env.term(arg(0), x.Pos()), env.term(arg(1), x.Pos()), env.term(arg(2), x.Pos())
		return Val{T: Term{app(ss.CatPred(r.Sort), r.S, a.S, b.S), SBool}}
	case "store":
		a := env.term(arg(0), x.Pos())
		xs, err := parseSX(a.Sort)
		if err != nil || len(xs) != 1 || len(xs[0].List) != 3 {
			env.fail(x.Pos(), "store on non-array sort %s", a.Sort)
		}
		ks, vs := xs[0].List[1].String(), xs[0].List[2].String()
		k := env.term(env.coerce(arg(1), ks), x.Pos())
		v := env.term(env.coerce(arg(2), vs), x.Pos())
		return Val{T: Term{app("store", a.S, k.S, v.S), a.Sort}}
	case "uptrOf":
		v := env.term(arg(0), x.Pos())
		env.c.declOnce("(declare-fun uptr.ofaddr ((_ BitVec 64)) UPtr)")
		return Val{T: Term{app("uptr.ofaddr", v.S), "UPtr"}}
	case "bstr":
		// bstr(b): the string made of the bytes of slice b (what string(b) yields)
		v := env.term(arg(0), x.Pos())
		si := ss.Info(v.Sort)
		if si == nil || si.Kind != KSlice {
			env.fail(x.Pos(), "bstr of non-slice %s", v.Sort)
		}
		fn := "bytes2str." + mangle(v.Sort)
		env.c.declOnce(fmt.Sprintf("(declare-fun %s ((Array Int %s) Int) String)", fn, si.Elem))
		return Val{T: Term{app(fn, ss.slArr(v), ss.slLen(v).S), SString}}
	case "min":
		a, b := env.coerce(arg(0), SInt), env.coerce(arg(1), SInt)
		return Val{T: Term{ite(app("<", a.T.S, b.T.S), a.T.S, b.T.S), SInt}}
	case "numSubexp":
		v := env.term(arg(0), x.Pos())
		env.c.declOnce(fmt.Sprintf("(declare-fun numSubexp (%s) Int)", v.Sort))
		return Val{T: Term{app("numSubexp", v.S), SInt}}
	case "uptrTo":
		// uptrTo(x, T): the *T value an unsafe.Pointer was converted from
		v := env.term(arg(0), x.Pos())
		tv := arg(1)
		if tv.T.Sort != "Type" {
			env.fail(x.Pos(), "uptrTo needs a type as second argument")
		}
		ps := ss.SortOf(types.NewPointer(tv.GoT))
		if v.Sort == SBV64 {
			env.c.declOnce("(declare-fun uptr.ofaddr ((_ BitVec 64)) UPtr)")
			v = Term{app("uptr.ofaddr", v.S), "UPtr"}
		}
		fn := "uptr.to." + mangle(ps)
		env.c.declOnce(fmt.Sprintf("(declare-fun %s (UPtr) %s)", fn, ps))
		return Val{T: Term{app(fn, v.S), ps}, GoT: types.NewPointer(tv.GoT)}
	case "nonnil":
		v := arg(0)
		if v.Loc != nil {
			return Val{T: Term{not(v.Loc.NilCond), SBool}}
		}
		return Val{T: Term{app(v.T.Sort+".nonnil", v.T.S), SBool}}
	case "w2i":
		v := env.term(arg(0), x.Pos())
		return Val{T: env.w2i(v, bvBits(v.Sort))}
	case "i2w32":
		v := env.coerce(arg(0), SInt)
		if v.Const != nil {
			return Val{T: intLit(v.Const, SBV32), Const: v.Const}
		}
		return Val{T: env.i2w(v.T, 32)}
	case "zext64":
		v := env.term(arg(0), x.Pos())
		return Val{T: Term{app("(_ zero_extend 32)", v.S), SBV64}}
	case "lo32":
		v := env.term(arg(0), x.Pos())
		return Val{T: Term{app("(_ extract 31 0)", v.S), SBV32}}
	case "hi32":
		v := env.term(arg(0), x.Pos())
		return Val{T: Term{app("(_ extract 63 32)", v.S), SBV32}}
	case "substr":
		s, a, b := arg(0), env.coerce(arg(1), SInt), env.coerce(arg(2), SInt)
		return Val{T: Term{app("str.substr", s.T.S, a.T.S, app("-", b.T.S, a.T.S)), SString}}
	case "prefixof":
		return Val{T: Term{app("str.prefixof", arg(0).T.S, arg(1).T.S), SBool}}
	case "contains":
		return Val{T: Term{app("str.contains", arg(0).T.S, arg(1).T.S), SBool}}
	case "strlen":
		return Val{T: Term{app("str.len", arg(0).T.S), SInt}}
	}
	// Go basic type conversion in contracts: uint32(x), int(x), uint64(x)
	if bt := types.Universe.Lookup(name); bt != nil {
		if tn, ok := bt.(*types.TypeName); ok {
			return env.specConv(tn.Type(), x)
		}
	}
	// named type of the package: Action(x)
	if env.pkg != nil {
		if o := env.pkg.Types.Scope().Lookup(name); o != nil {
			if tn, ok := o.(*types.TypeName); ok {
				return env.specConv(tn.Type(), x)
			}
		}
	}
	// spec library function
	if f, ok := env.c.eng.Spec.Fns[name]; ok {
		if len(f.Args) != len(x.Args) {
			env.fail(x.Pos(), "contract: %s expects %d arguments", name, len(f.Args))
		}
		as := make([]string, len(x.Args))
		for i := range x.Args {
			v := env.coerce(arg(i), f.Args[i])
			t := env.term(v, x.Pos())
			if t.Sort != f.Args[i] {
				env.fail(x.Pos(), "contract: argument %d of %s has sort %s, want %s", i+1, name, t.Sort, f.Args[i])
			}
			as[i] = t.S
		}
		return Val{T: Term{app(f.Name, as...), f.Res}}
	}
	env.fail(x.Pos(), "contract: unknown function %s", name)
	return Val{}
}

func (env *Env) lenOfSpec(v Term, pos token.Pos) Val {
	ss := env.ss()
	if v.Sort == SString {
		return Val{T: Term{app("str.len", v.S), SInt}}
	}
	si := ss.Info(v.Sort)
	if si != nil {
		switch si.Kind {
		case KSlice:
			return Val{T: ss.slLen(v)}
		case KMap:
			return Val{T: Term{app(v.Sort+".card", v.S), SInt}}
		case KArray:
			return Val{T: tInt(si.N)}
		}
	}
	env.fail(pos, "len of %s", v.Sort)
	return Val{}
}

func (env *Env) specConv(to types.Type, x *ast.CallExpr) Val {
	v := env.eval(x.Args[0])
	ts := env.ss().SortOf(to)
	if v.Const != nil {
		return env.coerce(v, ts)
	}
	t := env.term(v, x.Pos())
	if t.Sort == ts {
		return Val{T: t, GoT: to}
	}
	if t.Sort == SInt && ts == SInt {
		return Val{T: t, GoT: to}
	}
	return env.convertVal(Val{T: t}, nil, to, x.Pos())
}

// qidOf names a quantifier after the text of its body (for solver profiles).
func qidOf(x *ast.CallExpr, env *Env) string {
	t := exprString2(x.Args[3])
	var b strings.Builder
	for _, r := range t {
		if (r >= 'a' && r <= 'z') || (r >= 'A' && r <= 'Z') || (r >= '0' && r <= '9') {
			b.WriteRune(r)
		} else if b.Len() > 0 && !strings.HasSuffix(b.String(), "_") {
			b.WriteByte('_')
		}
		if b.Len() > 48 {
			break
		}
	}
	return "q_" + b.String()
}

// abstractExternalCall models a call to a function outside the module that has no contract: its results are
// arbitrary values of their types, the pointees of pointer arguments written as &x become arbitrary, nothing else
// changes (in particular no ghost state: a system call must have a contract). This over-approximates every library
// function that neither calls back into the module nor touches module state other than through its arguments, and
// that does not panic; each abstracted callee is listed as an assumption. A proof that goes through holds for
// every behaviour of the callee; a proof that fails is reported like any other failed obligation.
func (env *Env) abstractExternalCall(x *ast.CallExpr, fn *types.Func, key string, recvExpr ast.Expr) (Val, bool) {
	c := env.c
	if fn.Pkg() == nil {
		return Val{}, false
	}
	if _, inModule := c.eng.Funcs[key]; inModule {
		return Val{}, false
	}
	for _, p := range c.eng.PkgByName {
		if p.Types == fn.Pkg() {
			return Val{}, false
		}
	}
	// never abstract what carries the properties' ghost state
	switch fn.Pkg().Path() {
	case "syscall", "os", "os/exec", "runtime", "bufio", "io", "unsafe":
		return Val{}, false
	}
	sig, ok := fn.Type().(*types.Signature)
	if !ok {
		return Val{}, false
	}
	args := append([]ast.Expr(nil), x.Args...)
	if recvExpr != nil {
		args = append([]ast.Expr{recvExpr}, args...)
	}
	for _, a := range args {
		if u, ok := unparen(a).(*ast.UnaryExpr); ok && u.Op == token.AND {
			// &lvalue: the callee may store anything of the right type there
			loc := env.lvalue(u.X)
			t := env.typeOf(u.X)
			if t == nil {
				return Val{}, false
			}
			nv := c.fresh("ext_"+fn.Name(), c.eng.Sorts.SortOf(t))
			env.st.Assume(c.typeFacts(nv, t))
			env.writeLoc(loc, nv, a.Pos(), false)
			continue
		}
		v := env.eval(a)
		if v.Loc != nil {
			return Val{}, false // a pointer into module memory handed to an unknown callee
		}
		if t := env.typeOf(a); t != nil {
			switch t.Underlying().(type) {
			case *types.Pointer, *types.Map, *types.Chan, *types.Signature:
				return Val{}, false
			}
		}
	}
	c.noteOnce("external call abstracted (results and &arguments arbitrary, no other effect, no panic): " + key)
	c.abstracted = append(c.abstracted, key)
	var res []Val
	for i := 0; i < sig.Results().Len(); i++ {
		rt := sig.Results().At(i).Type()
		r := c.fresh("r_"+fn.Name(), c.eng.Sorts.SortOf(rt))
		env.st.Assume(c.typeFacts(r, rt))
		res = append(res, Val{T: r, GoT: rt})
	}
	switch len(res) {
	case 0:
		return Val{}, true
	case 1:
		return res[0], true
	}
	return Val{Tuple: res}, true
}

// dispatchIface handles a call of an interface method on a value of an interface that is modelled as a sum of concrete
// types (bpf.Instruction): if every modelled type has a method of that name under contract, the call is the case
// distinction over the dynamic type, each case a call by contract of the concrete method on the unboxed value. That
// the dynamic type is one of the modelled types (in particular that the interface value is not nil) is an obligation
// (safe:dispatch), to be provable from the caller's precondition. The callees must have no effect the caller can see.
func (env *Env) dispatchIface(x *ast.CallExpr, fn *types.Func, recvExpr ast.Expr) (Val, bool) {
	c := env.c
	sig, ok := fn.Type().(*types.Signature)
	if !ok || sig.Recv() == nil || recvExpr == nil {
		return Val{}, false
	}
	if _, isIface := sig.Recv().Type().Underlying().(*types.Interface); !isIface {
		return Val{}, false
	}
	rt0 := env.typeOf(recvExpr)
	if rt0 == nil {
		return Val{}, false
	}
	si := env.ss().Info(env.ss().SortOf(rt0))
	if si == nil || si.Kind != KIface || len(si.Boxes) == 0 {
		return Val{}, false
	}
	type target struct {
		box  BoxInfo
		fn   *types.Func
		spec *FuncSpec
	}
	var ts []target
	for _, b := range si.Boxes {
		obj, _, _ := types.LookupFieldOrMethod(b.GoType, true, fn.Pkg(), fn.Name())
		m, isFn := obj.(*types.Func)
		if !isFn {
			return Val{}, false
		}
		sp := c.eng.Contracts.Funcs[c.eng.keyOfFunc(m)]
		if sp == nil {
			return Val{}, false
		}
		ts = append(ts, target{b, m, sp})
	}
	rv := env.eval(recvExpr)
	rt := env.term(rv, x.Pos())
	var isAny []string
	for _, t := range ts {
		isAny = append(isAny, app("(_ is "+t.box.Ctor+")", rt.S))
	}
	env.safe("safe:dispatch", x.Pos(), or(isAny...), "the dynamic type of the receiver is one of the types under contract (not nil, not an unknown implementation)")
	var res []Val
	for i := 0; i < sig.Results().Len(); i++ {
		t := sig.Results().At(i).Type()
		res = append(res, Val{T: c.fresh("r_"+fn.Name(), c.eng.Sorts.SortOf(t)), GoT: t})
	}
	base := len(env.st.hyps)
	var disj []string
	for i, t := range ts {
		sub := env.st.Clone()
		sub.Assume(isAny[i])
		sub.path = append(sub.path, "dyn:"+t.box.Sort)
		subEnv := *env
		subEnv.st = sub
		subEnv.recvOverride = &Val{T: Term{app(t.box.Sel, rt.S), t.box.Sort}, GoT: t.box.GoType}
		v := subEnv.callSpec(x, t.fn, t.spec, recvExpr)
		if sub.dead {
			continue
		}
		// no visible effect: everything the caller had is unchanged
		for ob, tm := range env.st.vars {
			if sub.vars[ob] != tm || sub.vers[ob] != env.st.vers[ob] {
				env.fail(x.Pos(), "interface dispatch: %s changes caller state", t.spec.Key)
			}
		}
		for k, sv := range env.st.spec {
			if sub.spec[k].T != sv.T {
				env.fail(x.Pos(), "interface dispatch: %s changes ghost state", t.spec.Key)
			}
		}
		parts := append([]string(nil), sub.hyps[base:]...)
		var vs []Val
		switch {
		case len(res) == 1:
			vs = []Val{v}
		case len(res) > 1:
			vs = v.Tuple
		}
		if len(vs) != len(res) {
			env.fail(x.Pos(), "interface dispatch: result arity of %s", t.spec.Key)
		}
		for j, rvj := range vs {
			tj := env.term(rvj, x.Pos())
			if tj.Sort != res[j].T.Sort {
				env.fail(x.Pos(), "interface dispatch: result sort of %s", t.spec.Key)
			}
			parts = append(parts, eq(res[j].T.S, tj.S))
		}
		disj = append(disj, and(parts...))
	}
	switch len(disj) {
	case 0:
		env.st.dead = true
	case 1:
		env.st.Assume(disj[0])
	default:
		env.st.Assume("(or " + strings.Join(disj, " ") + ")")
	}
	switch len(res) {
	case 0:
		return Val{}, true
	case 1:
		return res[0], true
	}
	return Val{Tuple: res}, true
}

// inlineCall handles a call to a function of the same package that has no contract (typically a helper extracted
// by a refactoring): if the body is loop-free, has no defer/go/closure and turns out to have no effect on anything
// the caller can see, the call is replaced by a summary computed from the body itself: the callee is executed
// symbolically on a copy of the caller's state; for every return path, "path condition and results" becomes one
// disjunct of what is assumed about fresh result values. Safety obligations of the callee's body are generated in
// the caller's context and count for the caller's properties. Anything else: not inlined (the call stays unsupported).
func (env *Env) inlineCall(x *ast.CallExpr, fn *types.Func, key string, recvExpr ast.Expr) (Val, bool) {
	c := env.c
	fi := c.eng.Funcs[key]
	if fi == nil || fi.Decl == nil || fi.Decl.Body == nil || c.inlineDepth >= 2 || fi.Pkg != c.fi.Pkg || fi == c.fi {
		return Val{}, false
	}
	simple := true
	hasDefer := false
	ast.Inspect(fi.Decl.Body, func(n ast.Node) bool {
		switch d := n.(type) {
		case *ast.ForStmt, *ast.RangeStmt, *ast.GoStmt, *ast.FuncLit, *ast.SelectStmt, *ast.LabeledStmt:
			simple = false
		case *ast.DeferStmt:
			// a deferred plain call (defer f.Close(), defer runtime.UnlockOSThread()) is run at each return path of the
			// inlined body; deferred closures are not summarised
			if _, isLit := unparen(d.Call.Fun).(*ast.FuncLit); isLit {
				simple = false
			}
			hasDefer = true
		}
		return simple
	})
	if hasDefer && fi.Decl.Type.Results != nil {
		for _, f := range fi.Decl.Type.Results.List {
			if len(f.Names) > 0 {
				simple = false // named results and defers: the deferred call could change the results
			}
		}
	}
	sig, ok := fn.Type().(*types.Signature)
	if !simple || !ok || sig.Variadic() {
		return Val{}, false
	}
	// arguments, in the caller
	var argv []Val
	for i, a := range x.Args {
		v := env.eval(a)
		if v.Loc != nil {
			return Val{}, false
		}
		argv = append(argv, env.convertVal(v, env.typeOf(a), sig.Params().At(i).Type(), a.Pos()))
	}
	var recvV *Val
	if recvExpr != nil {
		v := env.eval(recvExpr)
		if v.Loc != nil {
			return Val{}, false
		}
		recvV = &v
	}
	sub := env.st.Clone()
	info := c.info
	var ptrBack [][2]types.Object // callee receiver object -> caller's pointer variable
	bind := func(nm *ast.Ident, v Val) {
		if o := info.Defs[nm]; o != nil {
			sub.vars[o] = c.nameTerm(sub, nm.Name, env.term(v, x.Pos()))
		}
	}
	if fi.Decl.Recv != nil && len(fi.Decl.Recv.List) > 0 && len(fi.Decl.Recv.List[0].Names) > 0 {
		if recvV == nil {
			return Val{}, false
		}
		rt := env.typeOf(recvExpr)
		if rt == nil {
			return Val{}, false
		}
		if _, isPtr := sig.Recv().Type().Underlying().(*types.Pointer); isPtr {
			// pointer receiver: summarised when the caller passes a plain pointer variable of its own (a pointer is a
			// value holding its pointee in this executor) and the body never rebinds the receiver name: what the body
			// does to the pointee is copied back to the caller's variable on every return path
			id, isId := unparen(recvExpr).(*ast.Ident)
			if !isId {
				return Val{}, false
			}
			cobj := info.ObjectOf(id)
			if _, have := env.st.vars[cobj]; !have || env.st.locs[cobj] != nil {
				return Val{}, false
			}
			if _, ok := rt.Underlying().(*types.Pointer); !ok {
				return Val{}, false
			}
			robj := info.Defs[fi.Decl.Recv.List[0].Names[0]]
			rebinds := false
			ast.Inspect(fi.Decl.Body, func(n ast.Node) bool {
				switch a := n.(type) {
				case *ast.AssignStmt:
					for _, l := range a.Lhs {
						if li, ok := unparen(l).(*ast.Ident); ok && info.ObjectOf(li) == robj {
							rebinds = true
						}
					}
				case *ast.UnaryExpr:
					if li, ok := unparen(a.X).(*ast.Ident); ok && a.Op == token.AND && info.ObjectOf(li) == robj {
						rebinds = true
					}
				case *ast.IncDecStmt:
					if li, ok := unparen(a.X).(*ast.Ident); ok && info.ObjectOf(li) == robj {
						rebinds = true
					}
				}
				return !rebinds
			})
			for _, a := range x.Args {
				ast.Inspect(a, func(n ast.Node) bool {
					if ai, ok := n.(*ast.Ident); ok && info.ObjectOf(ai) == cobj {
						rebinds = true // the same pointer also passed as an argument: aliasing inside the callee
					}
					return true
				})
			}
			if robj == nil || rebinds {
				return Val{}, false
			}
			ptrBack = append(ptrBack, [2]types.Object{robj, cobj})
		}
		bind(fi.Decl.Recv.List[0].Names[0], *recvV)
	}
	pi := 0
	if fi.Decl.Type.Params != nil {
		for _, f := range fi.Decl.Type.Params.List {
			for _, nm := range f.Names {
				if pi >= len(argv) {
					return Val{}, false
				}
				bind(nm, argv[pi])
				pi++
			}
			if len(f.Names) == 0 {
				pi++
			}
		}
	}
	var named []types.Object
	if fi.Decl.Type.Results != nil {
		for _, f := range fi.Decl.Type.Results.List {
			for _, nm := range f.Names {
				if o := info.Defs[nm]; o != nil {
					named = append(named, o)
					sub.vars[o] = c.zero(c.eng.Sorts.SortOf(o.Type()), o.Type())
				}
			}
		}
	}
	// run the body in the callee's function context
	sFi, sSpec, sNamed, sLoop, sCall, sAssign, sSite := c.fi, c.spec, c.named, c.loopOrd, c.callOrd, c.assignOrd, c.siteOrd
	c.fi = fi
	// the inlined body runs under the caller's frame: a pointer receiver stands for the caller's own pointer variable
	c.spec = &FuncSpec{Key: key, Pkg: sSpec.Pkg, Props: sSpec.Props, Loops: map[int]*LoopSpec{}, Calls: map[string][]string{}, Opaque: sSpec.Opaque, OpaqueExc: sSpec.OpaqueExc,
		Modifies: sSpec.Modifies, FrameProps: sSpec.FrameProps}
	sRoot := c.rootFi
	if c.rootFi == nil {
		c.rootFi = sFi
	}
	if c.objAlias == nil {
		c.objAlias = map[types.Object]types.Object{}
	}
	for _, pb := range ptrBack {
		c.objAlias[pb[0]] = pb[1]
	}
	c.named = named
	c.loopOrd, c.callOrd, c.assignOrd, c.siteOrd = map[ast.Stmt]int{}, map[*ast.CallExpr]string{}, map[ast.Stmt]string{}, map[string]int{}
	c.inlineDepth++
	sub.path = append(sub.path, "inline:"+fn.Name())
	var outs []Out
	failed := false
	func() {
		defer func() {
			if r := recover(); r != nil {
				if _, ok := r.(unsupportedErr); ok {
					failed = true
					return
				}
				panic(r)
			}
		}()
		outs = c.execBlock(fi.Decl.Body.List, sub)
		// the body's deferred calls run, last first, where it returns
		for _, o := range outs {
			for !o.st.dead && len(o.st.defers) > len(env.st.defers) {
				i := len(o.st.defers) - 1
				call := o.st.defers[i]
				o.st.defers = o.st.defers[:i]
				c.codeEnv(o.st).eval(call)
			}
		}
	}()
	c.inlineDepth--
	c.fi, c.spec, c.named, c.loopOrd, c.callOrd, c.assignOrd, c.siteOrd = sFi, sSpec, sNamed, sLoop, sCall, sAssign, sSite
	c.rootFi = sRoot
	for _, pb := range ptrBack {
		delete(c.objAlias, pb[0])
	}
	if failed {
		return Val{}, false
	}
	for _, pb := range ptrBack {
		for _, o := range outs {
			if t, ok := o.st.vars[pb[0]]; ok && !o.st.dead {
				if t != o.st.vars[pb[1]] {
					o.st.vars[pb[1]] = t
				}
			}
		}
	}
	// results
	var res []Val
	for i := 0; i < sig.Results().Len(); i++ {
		rt := sig.Results().At(i).Type()
		r := c.fresh("r_"+fn.Name(), c.eng.Sorts.SortOf(rt))
		res = append(res, Val{T: r, GoT: rt})
	}
	base := len(env.st.hyps)
	var disj []string
	// effects of the body on what the caller can see (its variables - through pointers or package-level state - and the
	// ghost state): each changed item gets one fresh merged value, constrained per return path inside that path's disjunct
	var live []Out
	for _, o := range outs {
		if o.st.dead {
			continue
		}
		if o.kind != oReturn && !(o.kind == oNormal && sig.Results().Len() == 0) {
			return Val{}, false
		}
		if len(o.st.defers) != len(env.st.defers) || len(o.st.hyps) < base {
			return Val{}, false
		}
		for ob := range env.st.locs {
			if o.st.locs[ob] != env.st.locs[ob] {
				return Val{}, false // pointer locations rebound by the callee: not summarised
			}
		}
		live = append(live, o)
	}
	mergedVars := map[types.Object]Term{}
	var changedVars []types.Object
	for ob, t := range env.st.vars {
		for _, o := range live {
			if o.st.vars[ob] != t || o.st.vers[ob] != env.st.vers[ob] {
				if o.st.vars[ob].Sort != t.Sort {
					return Val{}, false
				}
				if _, done := mergedVars[ob]; !done {
					mergedVars[ob] = c.fresh(ob.Name()+"_after_"+fn.Name(), t.Sort)
					changedVars = append(changedVars, ob)
				}
			}
		}
	}
	sort.Slice(changedVars, func(i, j int) bool { return changedVars[i].Pos() < changedVars[j].Pos() })
	mergedSpec := map[string]Term{}
	for _, k := range sortedKeys(env.st.spec) {
		v := env.st.spec[k]
		for _, o := range live {
			if o.st.spec[k].T != v.T {
				if o.st.spec[k].T.Sort != v.T.Sort || v.Loc != nil {
					return Val{}, false
				}
				if _, done := mergedSpec[k]; !done {
					mergedSpec[k] = c.fresh(k+"_after_"+fn.Name(), v.T.Sort)
				}
			}
		}
	}
	for _, o := range live {
		parts := append([]string(nil), o.st.hyps[base:]...)
		for _, ob := range changedVars {
			parts = append(parts, eq(mergedVars[ob].S, o.st.vars[ob].S))
		}
		for _, k := range sortedKeys(mergedSpec) {
			parts = append(parts, eq(mergedSpec[k].S, o.st.spec[k].T.S))
		}
		if sig.Results().Len() > 0 {
			if len(o.st.retVals) != len(res) {
				return Val{}, false
			}
			for i, rv := range o.st.retVals {
				t := env.term(rv, x.Pos())
				if t.Sort != res[i].T.Sort {
					return Val{}, false
				}
				parts = append(parts, eq(res[i].T.S, t.S))
			}
		}
		disj = append(disj, and(parts...))
	}
	if len(disj) == 0 {
		env.st.dead = true
	} else if len(disj) == 1 {
		env.st.Assume(disj[0])
	} else {
		env.st.Assume("(or " + strings.Join(disj, " ") + ")")
	}
	for _, ob := range changedVars {
		env.st.vars[ob] = mergedVars[ob]
		env.st.vers[ob]++
	}
	for k, t := range mergedSpec {
		env.st.spec[k] = Val{T: t}
	}
	c.noteOnce("call to " + key + " (no contract) replaced by a summary computed from its body")
	switch len(res) {
	case 0:
		return Val{}, true
	case 1:
		return res[0], true
	}
	return Val{Tuple: res}, true
}
