package main

// SMT layer: sorts generated from go/types, term helpers, datatype emission.

import (
	"fmt"
	"go/types"
	"sort"
	"strings"
)

// Term is an SMT-LIB term with its sort.
type Term struct {
	S    string
	Sort string
}

func (t Term) String() string { return t.S }

const (
	SInt    = "Int"
	SBool   = "Bool"
	SString = "String"
	SBV32   = "(_ BitVec 32)"
	SBV64   = "(_ BitVec 64)"
	SBV8    = "(_ BitVec 8)"
)

// MAXLEN bounds slice/string lengths (assumption: 64-bit address space).
const MAXLEN = "72057594037927936" // 2^56

func mangle(s string) string {
	r := strings.NewReplacer("(_ BitVec 32)", "BV32", "(_ BitVec 64)", "BV64", "(_ BitVec 8)", "BV8", "(_ BitVec 16)", "BV16",
		"(Array ", "Arr<", ")", ">", " ", "~", "(", "<")
	return r.Replace(s)
}

// FieldInfo describes one selector of a struct-like datatype.
type FieldInfo struct {
	Name   string
	Sel    string
	Sort   string
	GoType types.Type // nil for ghost/spec fields
	Ghost  bool
}

type SortKind int

const (
	KPrim SortKind = iota
	KStruct
	KSlice
	KMap
	KPtr
	KIface
	KArray
	KSpec // declared in the spec library
)

type SortInfo struct {
	Name   string
	Kind   SortKind
	Fields []FieldInfo // struct
	Ctor   string
	Elem   string // slice, ptr, array: element sort; map: value sort
	Key    string // map key sort
	GoElem types.Type
	GoKey  types.Type
	GoType types.Type
	N      int64    // array length
	Boxes  []BoxInfo // iface
	decl   string
}

// BoxInfo is one concrete dynamic type of an interface datatype.
type BoxInfo struct {
	Ctor   string
	Sel    string
	Tester string
	Sort   string
	GoType types.Type
}

// Sorts is the registry of generated sorts, in dependency order.
type Sorts struct {
	byName map[string]*SortInfo
	order  []string
	// ghost fields per struct (qualified go type name -> fields), from contract type blocks
	ghostFields map[string][]FieldInfo
	// concrete types per interface (qualified name -> list of types)
	ifaceImpls map[string][]types.Type
	typeNames  map[string]string // types.Type string -> sort (cache)
	extraDefs  []string
	extraSeen  map[string]bool
}

// CatPred returns the name of the concatenation predicate for a slice sort, defining it on first use:
// (slcat.S r s t) <=> r is the concatenation of s and t (the meaning of append(s, t...)).
func (ss *Sorts) CatPred(sort string) string {
	name := "slcat." + sort
	if ss.extraSeen == nil {
		ss.extraSeen = map[string]bool{}
	}
	if !ss.extraSeen[name] {
		ss.extraSeen[name] = true
		ss.extraDefs = append(ss.extraDefs, fmt.Sprintf(
			"(define-fun %s ((r %s) (s %s) (t %s)) Bool (and (= (%s.len r) (+ (%s.len s) (%s.len t))) (forall ((j Int)) (! (=> (and (<= 0 j) (< j (+ (%s.len s) (%s.len t)))) (= (select (%s.arr r) j) (ite (< j (%s.len s)) (select (%s.arr s) j) (select (%s.arr t) (- j (%s.len s)))))) :pattern ((select (%s.arr r) j))))))",
			name, sort, sort, sort, sort, sort, sort, sort, sort, sort, sort, sort, sort, sort, sort))
	}
	return name
}

func NewSorts() *Sorts {
	return &Sorts{byName: map[string]*SortInfo{}, ghostFields: map[string][]FieldInfo{}, ifaceImpls: map[string][]types.Type{}, typeNames: map[string]string{}}
}

func (ss *Sorts) add(si *SortInfo) {
	if _, ok := ss.byName[si.Name]; ok {
		return
	}
	ss.byName[si.Name] = si
	ss.order = append(ss.order, si.Name)
}

func (ss *Sorts) Info(sort string) *SortInfo { return ss.byName[sort] }

func qualName(n *types.Named) string {
	obj := n.Obj()
	if obj.Pkg() == nil {
		return obj.Name()
	}
	return obj.Pkg().Name() + "." + obj.Name()
}

// SortOf maps a Go type to an SMT sort, generating datatypes on demand.
func (ss *Sorts) SortOf(t types.Type) string {
	key := types.TypeString(t, nil)
	if s, ok := ss.typeNames[key]; ok {
		return s
	}
	s := ss.sortOf(t)
	ss.typeNames[key] = s
	return s
}

func (ss *Sorts) sortOf(t types.Type) string {
	switch tt := t.(type) {
	case *types.Alias:
		return ss.SortOf(types.Unalias(tt))
	case *types.Basic:
		switch tt.Kind() {
		case types.Bool, types.UntypedBool:
			return SBool
		case types.String, types.UntypedString:
			return SString
		case types.Uint32:
			return SBV32
		case types.Uint64, types.Uintptr, types.Uint:
			return SBV64
		case types.UnsafePointer:
			return "UPtr"
		case types.Int, types.Int8, types.Int16, types.Int32, types.Int64, types.Uint8, types.Uint16, types.UntypedInt, types.UntypedRune:
			return SInt
		case types.UntypedNil:
			return "Nil"
		}
		return "Unsupported_" + tt.Name()
	case *types.Named:
		qn := qualName(tt)
		switch u := tt.Underlying().(type) {
		case *types.Struct:
			if !ss.transparent(tt, u, 0) {
				return ss.opaqueStruct(qn, tt)
			}
			return ss.structSort(qn, u, tt)
		case *types.Interface:
			return ss.ifaceSort(qn, tt)
		case *types.Signature:
			return "Func"
		default:
			_ = u
			return ss.SortOf(tt.Underlying())
		}
	case *types.Struct:
		if tt.NumFields() == 0 {
			ss.add(&SortInfo{Name: "Unit", Kind: KStruct, Ctor: "unit", decl: "(declare-datatypes ((Unit 0)) (((unit))))"})
			return "Unit"
		}
		return ss.structSort("anon."+mangle(fmt.Sprintf("%p", tt)), tt, tt)
	case *types.Slice:
		return ss.sliceSort(tt.Elem())
	case *types.Array:
		es := ss.SortOf(tt.Elem())
		name := fmt.Sprintf("(Array Int %s)", es)
		if _, ok := ss.byName[name]; !ok {
			ss.byName[name] = &SortInfo{Name: name, Kind: KArray, Elem: es, GoElem: tt.Elem(), N: tt.Len(), GoType: tt}
		}
		return name
	case *types.Map:
		return ss.mapSort(tt.Key(), tt.Elem())
	case *types.Pointer:
		return ss.ptrSort(tt.Elem())
	case *types.Interface:
		if tt.NumMethods() == 0 {
			return ss.ifaceSort("any", nil)
		}
		return ss.ifaceSort("iface."+mangle(tt.String()), nil)
	case *types.Signature:
		return "Func"
	case *types.Tuple:
		return "Tuple"
	}
	return "Unsupported"
}

// RepoModule is the module path whose struct types are always modelled field by field.
var RepoModule = "github.com/elastic/go-seccomp-bpf"

func (ss *Sorts) transparent(n *types.Named, st *types.Struct, depth int) bool {
	if n.Obj().Pkg() != nil && strings.HasPrefix(n.Obj().Pkg().Path(), RepoModule) {
		return true
	}
	if depth > 3 {
		return false
	}
	var ok func(t types.Type, d int) bool
	ok = func(t types.Type, d int) bool {
		switch u := t.(type) {
		case *types.Basic:
			return u.Kind() != types.UnsafePointer
		case *types.Named:
			switch uu := u.Underlying().(type) {
			case *types.Basic:
				return true
			case *types.Struct:
				return ss.transparent(u, uu, d+1)
			}
			return false
		case *types.Pointer:
			return ok(u.Elem(), d+1)
		case *types.Slice:
			return ok(u.Elem(), d+1)
		case *types.Array:
			return ok(u.Elem(), d+1)
		}
		return false
	}
	for i := 0; i < st.NumFields(); i++ {
		f := st.Field(i)
		if !f.Exported() || !ok(f.Type(), depth) {
			return false
		}
	}
	return true
}

// opaqueStruct: external struct types are datatypes with an identity and only the
// ghost fields declared for them in the spec files.
func (ss *Sorts) opaqueStruct(qn string, gt types.Type) string {
	name := qn
	if _, ok := ss.byName[name]; ok {
		return name
	}
	si := &SortInfo{Name: name, Kind: KStruct, Ctor: "mk." + name, GoType: gt}
	fs := []FieldInfo{{Name: "$id", Sel: name + ".$id", Sort: SInt, Ghost: true}}
	for _, g := range ss.ghostFields[qn] {
		g.Sel = name + "." + g.Name
		g.Ghost = true
		fs = append(fs, g)
	}
	si.Fields = fs
	var b strings.Builder
	fmt.Fprintf(&b, "(declare-datatypes ((%s 0)) (((%s", name, si.Ctor)
	for _, f := range fs {
		fmt.Fprintf(&b, " (%s %s)", f.Sel, f.Sort)
	}
	b.WriteString("))))")
	si.decl = b.String()
	ss.add(si)
	return name
}

func (ss *Sorts) structSort(qn string, st *types.Struct, gt types.Type) string {
	name := qn
	if _, ok := ss.byName[name]; ok {
		return name
	}
	// reserve to cut recursion (recursive structs are not supported; they become opaque)
	si := &SortInfo{Name: name, Kind: KStruct, Ctor: "mk." + name, GoType: gt}
	ss.byName[name] = si
	var fs []FieldInfo
	for i := 0; i < st.NumFields(); i++ {
		f := st.Field(i)
		fs = append(fs, FieldInfo{Name: f.Name(), Sel: name + "." + f.Name(), Sort: ss.SortOf(f.Type()), GoType: f.Type()})
	}
	for _, g := range ss.ghostFields[qn] {
		g.Sel = name + "." + g.Name
		g.Ghost = true
		fs = append(fs, g)
	}
	si.Fields = fs
	var b strings.Builder
	fmt.Fprintf(&b, "(declare-datatypes ((%s 0)) (((%s", name, si.Ctor)
	for _, f := range fs {
		fmt.Fprintf(&b, " (%s %s)", f.Sel, f.Sort)
	}
	b.WriteString("))))")
	si.decl = b.String()
	ss.order = append(ss.order, name)
	return name
}

func (ss *Sorts) sliceSort(elem types.Type) string {
	es := ss.SortOf(elem)
	return ss.sliceSortOf(es, elem)
}

func (ss *Sorts) sliceSortOf(es string, elem types.Type) string {
	name := "Slice<" + mangle(es) + ">"
	if _, ok := ss.byName[name]; ok {
		return name
	}
	si := &SortInfo{Name: name, Kind: KSlice, Elem: es, GoElem: elem, Ctor: "mk." + name}
	si.decl = fmt.Sprintf("(declare-datatypes ((%s 0)) (((%s (%s.arr (Array Int %s)) (%s.len Int) (%s.own Bool)))))", name, si.Ctor, name, es, name, name)
	ss.add(si)
	return name
}

func (ss *Sorts) mapSort(k, v types.Type) string {
	ks, vs := ss.SortOf(k), ss.SortOf(v)
	name := "Map<" + mangle(ks) + "~" + mangle(vs) + ">"
	if _, ok := ss.byName[name]; ok {
		return name
	}
	si := &SortInfo{Name: name, Kind: KMap, Key: ks, Elem: vs, GoKey: k, GoElem: v, Ctor: "mk." + name}
	si.decl = fmt.Sprintf("(declare-datatypes ((%s 0)) (((%s (%s.has (Array %s Bool)) (%s.val (Array %s %s)) (%s.card Int) (%s.nonnil Bool)))))",
		name, si.Ctor, name, ks, name, ks, vs, name, name)
	ss.add(si)
	return name
}

func (ss *Sorts) ptrSort(elem types.Type) string {
	es := ss.SortOf(elem)
	name := "Ptr<" + mangle(es) + ">"
	if _, ok := ss.byName[name]; ok {
		return name
	}
	si := &SortInfo{Name: name, Kind: KPtr, Elem: es, GoElem: elem, Ctor: "mk." + name}
	si.decl = fmt.Sprintf("(declare-datatypes ((%s 0)) (((%s (%s.nonnil Bool) (%s.val %s)))))", name, si.Ctor, name, name, es)
	ss.add(si)
	return name
}

// ifaceSort: a sum over the concrete types registered for the interface plus
// nil and an opaque "other" box.
func (ss *Sorts) ifaceSort(qn string, nt *types.Named) string {
	name := "I." + qn
	if _, ok := ss.byName[name]; ok {
		return name
	}
	si := &SortInfo{Name: name, Kind: KIface, GoType: nt}
	ss.byName[name] = si
	var b strings.Builder
	fmt.Fprintf(&b, "(declare-datatypes ((%s 0)) (((%s.nil) (%s.other (%s.other.id Int))", name, name, name, name)
	if qn == "error" {
		fmt.Fprintf(&b, " (%s.errno (%s.errno.code (_ BitVec 64)))", name, name)
	}
	for _, ct := range ss.ifaceImpls[qn] {
		cs := ss.SortOf(ct)
		m := mangle(cs)
		bi := BoxInfo{Ctor: name + ".box." + m, Sel: name + ".unbox." + m, Sort: cs, GoType: ct}
		si.Boxes = append(si.Boxes, bi)
		fmt.Fprintf(&b, " (%s (%s %s))", bi.Ctor, bi.Sel, cs)
	}
	b.WriteString(")))")
	si.decl = b.String()
	ss.order = append(ss.order, name)
	return name
}

// Decls returns all datatype declarations in dependency order.
func (ss *Sorts) Decls() string {
	var b strings.Builder
	b.WriteString("(declare-sort UPtr 0)\n(declare-sort Func 0)\n(declare-sort Nil 0)\n")
	for _, n := range ss.order {
		if d := ss.byName[n].decl; d != "" {
			b.WriteString(d)
			b.WriteString("\n")
		}
	}
	for _, d := range ss.extraDefs {
		b.WriteString(d)
		b.WriteString("\n")
	}
	return b.String()
}

// ---- term helpers ----

func app(f string, args ...string) string {
	if len(args) == 0 {
		return f
	}
	return "(" + f + " " + strings.Join(args, " ") + ")"
}

func tBool(b bool) Term {
	if b {
		return Term{"true", SBool}
	}
	return Term{"false", SBool}
}

func tInt(n int64) Term {
	if n < 0 {
		return Term{fmt.Sprintf("(- %d)", -n), SInt}
	}
	return Term{fmt.Sprintf("%d", n), SInt}
}

func tIntS(dec string) Term {
	if strings.HasPrefix(dec, "-") {
		return Term{"(- " + dec[1:] + ")", SInt}
	}
	return Term{dec, SInt}
}

func tBV(v uint64, bits int) Term {
	if bits == 32 {
		return Term{fmt.Sprintf("#x%08x", uint32(v)), SBV32}
	}
	if bits == 8 {
		return Term{fmt.Sprintf("#x%02x", uint8(v)), SBV8}
	}
	return Term{fmt.Sprintf("#x%016x", v), SBV64}
}

func tStr(s string) Term {
	var b strings.Builder
	b.WriteByte('"')
	for _, r := range s {
		switch {
		case r == '"':
			b.WriteString(`""`)
		case r < 32 || r > 126 || r == '\\':
			fmt.Fprintf(&b, "\\u{%x}", r)
		default:
			b.WriteRune(r)
		}
	}
	b.WriteByte('"')
	return Term{b.String(), SString}
}

func and(ts ...string) string {
	var xs []string
	for _, t := range ts {
		if t == "true" {
			continue
		}
		if t == "false" {
			return "false"
		}
		xs = append(xs, t)
	}
	if len(xs) == 0 {
		return "true"
	}
	if len(xs) == 1 {
		return xs[0]
	}
	return "(and " + strings.Join(xs, " ") + ")"
}

func or(ts ...string) string {
	var xs []string
	for _, t := range ts {
		if t == "false" {
			continue
		}
		if t == "true" {
			return "true"
		}
		xs = append(xs, t)
	}
	if len(xs) == 0 {
		return "false"
	}
	if len(xs) == 1 {
		return xs[0]
	}
	return "(or " + strings.Join(xs, " ") + ")"
}

func not(t string) string {
	if t == "true" {
		return "false"
	}
	if t == "false" {
		return "true"
	}
	if strings.HasPrefix(t, "(not ") {
		return t[5 : len(t)-1]
	}
	return "(not " + t + ")"
}

func implies(a, b string) string {
	if a == "true" {
		return b
	}
	return "(=> " + a + " " + b + ")"
}

func eq(a, b string) string { return "(= " + a + " " + b + ")" }

func ite(c, a, b string) string { return "(ite " + c + " " + a + " " + b + ")" }

func isBV(sort string) bool { return strings.HasPrefix(sort, "(_ BitVec") }

func bvBits(sort string) int {
	switch sort {
	case SBV32:
		return 32
	case SBV64:
		return 64
	case SBV8:
		return 8
	}
	return 0
}

// slice helpers
func (ss *Sorts) slArr(t Term) string { return app(t.Sort+".arr", t.S) }
func (ss *Sorts) slLen(t Term) Term   { return Term{app(t.Sort+".len", t.S), SInt} }
func (ss *Sorts) slOwn(t Term) string { return app(t.Sort+".own", t.S) }
func (ss *Sorts) mkSlice(sort, arr, ln, own string) Term {
	return Term{app("mk."+sort, arr, ln, own), sort}
}

// struct update: returns a term equal to t except field f = v.
func (ss *Sorts) structUpdate(t Term, field string, v string) (Term, error) {
	si := ss.byName[t.Sort]
	if si == nil || si.Kind != KStruct {
		return Term{}, fmt.Errorf("structUpdate on non-struct sort %s", t.Sort)
	}
	args := make([]string, len(si.Fields))
	found := false
	for i, f := range si.Fields {
		if f.Name == field {
			args[i] = v
			found = true
		} else {
			args[i] = app(f.Sel, t.S)
		}
	}
	if !found {
		return Term{}, fmt.Errorf("no field %s in %s", field, t.Sort)
	}
	return Term{app(si.Ctor, args...), t.Sort}, nil
}

func (ss *Sorts) field(t Term, name string) (Term, *FieldInfo, bool) {
	si := ss.byName[t.Sort]
	if si == nil {
		return Term{}, nil, false
	}
	for i := range si.Fields {
		f := &si.Fields[i]
		if f.Name == name {
			return Term{app(f.Sel, t.S), f.Sort}, f, true
		}
	}
	return Term{}, nil, false
}

// sortedKeys is a small helper for deterministic output.
func sortedKeys[V any](m map[string]V) []string {
	ks := make([]string, 0, len(m))
	for k := range m {
		ks = append(ks, k)
	}
	sort.Strings(ks)
	return ks
}
