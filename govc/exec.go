package main

import (
	"runtime"
	"fmt"
	"go/ast"
	"go/printer"
	"go/token"
	"go/types"
	"sort"
	"strings"
)

type outKind int

const (
	oNormal outKind = iota
	oBreak
	oContinue
	oReturn
)

type Out struct {
	st   *State
	kind outKind
}

func (c *FnCtx) codeEnv(st *State) *Env {
	return &Env{c: c, st: st, code: true, pkg: c.fi.Pkg}
}

// specEnvAt: contract environment whose free names are resolved against the locals visible at pos.
func (c *FnCtx) specEnvAt(st *State, pos token.Pos) *Env {
	names := map[string]Val{}
	// parameters by contract names
	for n, o := range c.specNames {
		names[n] = c.varVal(st, o)
	}
	// locals in scope
	if pos.IsValid() {
		sc := c.fi.Pkg.Types.Scope().Innermost(pos)
		for s := sc; s != nil && s != c.fi.Pkg.Types.Scope(); s = s.Parent() {
			for _, n := range s.Names() {
				o := s.Lookup(n)
				v, ok := o.(*types.Var)
				if !ok || v.Pos() > pos {
					continue
				}
				if _, dup := names[n]; dup {
					continue
				}
				if _, has := st.vars[o]; has {
					names[n] = c.varVal(st, o)
				} else if _, has := st.locs[o]; has {
					names[n] = c.varVal(st, o)
				}
			}
		}
	}
	// locals of nested blocks that are still live in this path's state (e.g. at "loop N end")
	if pos.IsValid() {
		best := map[string]types.Object{}
		consider := func(o types.Object) {
			v, ok := o.(*types.Var)
			if !ok || v.Pkg() == nil || v.Parent() == v.Pkg().Scope() || v.Pos() > pos {
				return
			}
			if _, dup := names[o.Name()]; dup {
				return
			}
			if b, ok := best[o.Name()]; !ok || b.Pos() < o.Pos() {
				best[o.Name()] = o
			}
		}
		for o := range st.vars {
			consider(o)
		}
		for o := range st.locs {
			consider(o)
		}
		for n, o := range best {
			names[n] = c.varVal(st, o)
		}
	}
	oldNames := map[string]Val{}
	for n, o := range c.specNames {
		oldNames[n] = c.varVal(c.entry, o)
	}
	for k, v := range c.entry.spec {
		if _, ok := oldNames[k]; !ok && !strings.HasPrefix(k, "ghost.") {
			oldNames[k] = v
		}
	}
	return &Env{c: c, st: st, names: names, pkg: c.fi.Pkg, old: &Env{c: c, st: c.entry, names: oldNames, pkg: c.fi.Pkg}}
}

func (c *FnCtx) varVal(st *State, o types.Object) Val {
	if l, ok := st.locs[o]; ok {
		return Val{Loc: l, GoT: o.Type()}
	}
	return Val{T: st.vars[o], GoT: o.Type()}
}

// guarded runs f and converts unsupportedErr panics into an "unsupported" record, killing the path.
func (c *FnCtx) guarded(st *State, f func()) {
	defer func() {
		if r := recover(); r != nil {
			if u, ok := r.(unsupportedErr); ok {
				c.unsupported(token.NoPos, "%s", u.msg)
				st.dead = true
				return
			}
			panic(r)
		}
	}()
	f()
}

func (c *FnCtx) execBlock(list []ast.Stmt, st *State) []Out {
	live := []*State{st}
	var outs []Out
	for _, s := range list {
		var next []*State
		for _, ls := range live {
			if ls.dead {
				continue
			}
			for _, o := range c.execStmt(s, ls) {
				if o.st.dead {
					continue
				}
				if o.kind == oNormal {
					next = append(next, o.st)
				} else {
					outs = append(outs, o)
				}
			}
		}
		live = next
		if len(live) == 0 {
			break
		}
	}
	for _, ls := range live {
		if !ls.dead {
			outs = append(outs, Out{ls, oNormal})
		}
	}
	return outs
}

func (c *FnCtx) execStmt(s ast.Stmt, st *State) (outs []Out) {
	c.curPos = s.Pos()
	defer func() {
		if r := recover(); r != nil {
			if u, ok := r.(unsupportedErr); ok {
				c.unsupported(token.NoPos, "%s", u.msg)
				outs = nil
				return
			}
			if re, ok := r.(runtime.Error); ok {
				// a construct the symbolic executor does not handle must never take the whole check down: the function
				// is reported as outside the supported subset (UNDECIDED), the witness family is searched instead
				c.unsupported(s.Pos(), "construct not handled by the symbolic executor (%v)", re)
				outs = nil
				return
			}
			panic(r)
		}
	}()
	env := c.codeEnv(st)
	switch x := s.(type) {
	case *ast.EmptyStmt:
		return []Out{{st, oNormal}}
	case *ast.ExprStmt:
		env.eval(x.X)
		return []Out{{st, oNormal}}
	case *ast.AssignStmt:
		c.assign(env, x)
		if ord, ok := c.assignOrd[x]; ok {
			c.runGhosts(st, "after assign "+ord, x.End())
		}
		return []Out{{st, oNormal}}
	case *ast.IncDecStmt:
		op := token.ADD
		if x.Tok == token.DEC {
			op = token.SUB
		}
		cur := env.eval(x.X)
		one := Val{T: tInt(1), Const: constantOne}
		nv := env.binop(op, cur, one, env.typeOf(x.X), nil, x.Pos())
		c.assignTo(env, x.X, nv, false, env.typeOf(x.X))
		return []Out{{st, oNormal}}
	case *ast.DeclStmt:
		gd := x.Decl.(*ast.GenDecl)
		if gd.Tok == token.VAR {
			for _, sp := range gd.Specs {
				vs := sp.(*ast.ValueSpec)
				if len(vs.Values) == 1 && len(vs.Names) > 1 {
					v := env.eval(vs.Values[0])
					for i, n := range vs.Names {
						c.define(env, n, v.Tuple[i])
					}
					continue
				}
				for i, n := range vs.Names {
					obj := c.info.Defs[n]
					if n.Name == "_" || obj == nil {
						continue
					}
					if i < len(vs.Values) {
						v := env.eval(vs.Values[i])
						c.define(env, n, env.convertVal(v, env.typeOf(vs.Values[i]), obj.Type(), n.Pos()))
					} else {
						st.vars[obj] = c.zero(c.eng.Sorts.SortOf(obj.Type()), obj.Type())
					}
				}
			}
		}
		return []Out{{st, oNormal}}
	case *ast.BlockStmt:
		return c.execBlock(x.List, st)
	case *ast.IfStmt:
		if x.Init != nil {
			for _, o := range c.execStmt(x.Init, st) {
				_ = o
			}
		}
		cond := env.eval(x.Cond)
		ct := env.term(cond, x.Pos()).S
		thenSt := st.Clone()
		thenSt.Assume(ct)
		thenSt.path = append(thenSt.path, fmt.Sprintf("if@%d:T", c.line(x.Pos())))
		elseSt := st
		elseSt.Assume(not(ct))
		elseSt.path = append(elseSt.path, fmt.Sprintf("if@%d:F", c.line(x.Pos())))
		outs = append(outs, c.execBlock(x.Body.List, thenSt)...)
		if x.Else != nil {
			outs = append(outs, c.execStmt(x.Else, elseSt)...)
		} else {
			outs = append(outs, Out{elseSt, oNormal})
		}
		return outs
	case *ast.SwitchStmt:
		return c.execSwitch(x, st)
	case *ast.ForStmt:
		return c.execFor(x, st)
	case *ast.RangeStmt:
		return c.execRange(x, st)
	case *ast.ReturnStmt:
		c.execReturn(env, x)
		return []Out{{st, oReturn}}
	case *ast.BranchStmt:
		if x.Label != nil {
			env.fail(x.Pos(), "labelled %s", x.Tok)
		}
		switch x.Tok {
		case token.BREAK:
			return []Out{{st, oBreak}}
		case token.CONTINUE:
			return []Out{{st, oContinue}}
		}
		env.fail(x.Pos(), "unsupported branch %s", x.Tok)
	case *ast.DeferStmt:
		st.defers = append(st.defers, x.Call)
		return []Out{{st, oNormal}}
	case *ast.GoStmt:
		env.fail(x.Pos(), "go statement")
	}
	env.fail(s.Pos(), "unsupported statement %T", s)
	return nil
}

var constantOne = mustConst("1")

func (c *FnCtx) line(p token.Pos) int { return c.eng.Fset.Position(p).Line }

func (c *FnCtx) execSwitch(x *ast.SwitchStmt, st *State) []Out {
	env := c.codeEnv(st)
	if x.Init != nil {
		c.execStmt(x.Init, st)
	}
	var tag *Val
	if x.Tag != nil {
		v := env.eval(x.Tag)
		tag = &v
	}
	var outs []Out
	rest := st
	var deflt *ast.CaseClause
	for _, cc := range x.Body.List {
		cl := cc.(*ast.CaseClause)
		if cl.List == nil {
			deflt = cl
			continue
		}
		renv := c.codeEnv(rest)
		var conds []string
		for _, e := range cl.List {
			v := renv.eval(e)
			if tag != nil {
				r := renv.binop(token.EQL, *tag, v, env.typeOf(x.Tag), renv.typeOf(e), e.Pos())
				conds = append(conds, r.T.S)
			} else {
				conds = append(conds, v.T.S)
			}
		}
		cnd := or(conds...)
		hit := rest.Clone()
		hit.Assume(cnd)
		hit.path = append(hit.path, fmt.Sprintf("case@%d", c.line(cl.Pos())))
		for _, o := range c.execBlock(cl.Body, hit) {
			if o.kind == oBreak {
				o.kind = oNormal
			}
			outs = append(outs, o)
		}
		rest.Assume(not(cnd))
	}
	if deflt != nil {
		rest.path = append(rest.path, fmt.Sprintf("default@%d", c.line(deflt.Pos())))
		for _, o := range c.execBlock(deflt.Body, rest) {
			if o.kind == oBreak {
				o.kind = oNormal
			}
			outs = append(outs, o)
		}
	} else {
		outs = append(outs, Out{rest, oNormal})
	}
	return outs
}

func (c *FnCtx) execReturn(env *Env, x *ast.ReturnStmt) {
	sig := c.fi.Obj.Type().(*types.Signature)
	st := env.st
	st.retVals = nil
	if len(x.Results) == 0 {
		for _, o := range c.named {
			st.retVals = append(st.retVals, c.varVal(st, o))
		}
		return
	}
	if len(x.Results) == 1 && sig.Results().Len() > 1 {
		v := env.eval(x.Results[0])
		for i, tv := range v.Tuple {
			st.retVals = append(st.retVals, env.convertVal(tv, tv.GoT, sig.Results().At(i).Type(), x.Pos()))
		}
		return
	}
	for i, r := range x.Results {
		v := env.eval(r)
		st.retVals = append(st.retVals, env.convertVal(v, env.typeOf(r), sig.Results().At(i).Type(), r.Pos()))
	}
}

// ---- assignment ----

func (c *FnCtx) define(env *Env, id *ast.Ident, v Val) {
	if id.Name == "_" {
		return
	}
	obj := c.info.ObjectOf(id)
	if obj == nil {
		return
	}
	c.setVar(env, obj, v, id.Pos())
}

func (c *FnCtx) setVar(env *Env, obj types.Object, v Val, pos token.Pos) {
	st := env.st
	if v.Loc != nil {
		st.locs[obj] = v.Loc
		delete(st.vars, obj)
		return
	}
	delete(st.locs, obj)
	v = env.convertVal(v, v.GoT, obj.Type(), pos)
	st.vars[obj] = c.nameTerm(st, obj.Name(), v.T)
	st.vers[obj]++
}

func (c *FnCtx) assign(env *Env, x *ast.AssignStmt) {
	define := x.Tok == token.DEFINE
	if x.Tok != token.ASSIGN && x.Tok != token.DEFINE {
		// op-assign
		op := map[token.Token]token.Token{token.ADD_ASSIGN: token.ADD, token.SUB_ASSIGN: token.SUB, token.MUL_ASSIGN: token.MUL,
			token.OR_ASSIGN: token.OR, token.AND_ASSIGN: token.AND, token.XOR_ASSIGN: token.XOR, token.SHL_ASSIGN: token.SHL,
			token.SHR_ASSIGN: token.SHR, token.QUO_ASSIGN: token.QUO, token.REM_ASSIGN: token.REM, token.AND_NOT_ASSIGN: token.AND_NOT}[x.Tok]
		cur := env.eval(x.Lhs[0])
		rhs := env.eval(x.Rhs[0])
		nv := env.binop(op, cur, rhs, env.typeOf(x.Lhs[0]), env.typeOf(x.Rhs[0]), x.Pos())
		c.assignTo(env, x.Lhs[0], nv, false, env.typeOf(x.Lhs[0]))
		return
	}
	var vals []Val
	if len(x.Rhs) == 1 && len(x.Lhs) > 1 {
		var v Val
		switch r := unparen(x.Rhs[0]).(type) {
		case *ast.TypeAssertExpr:
			v = env.typeAssert(r, true)
		default:
			v = env.eval(x.Rhs[0])
		}
		if len(v.Tuple) != len(x.Lhs) {
			env.fail(x.Pos(), "tuple assignment arity")
		}
		vals = v.Tuple
	} else {
		for _, r := range x.Rhs {
			v := env.eval(r)
			if v.GoT == nil {
				v.GoT = env.typeOf(r)
			}
			vals = append(vals, v)
		}
	}
	for i, l := range x.Lhs {
		c.assignTo(env, l, vals[i], define, nil)
	}
}

func (c *FnCtx) assignTo(env *Env, lhs ast.Expr, v Val, define bool, _ types.Type) {
	lhs = unparen(lhs)
	if id, ok := lhs.(*ast.Ident); ok {
		if id.Name == "_" {
			return
		}
		obj := c.info.ObjectOf(id)
		if obj == nil {
			env.fail(id.Pos(), "no object for %s", id.Name)
		}
		c.setVar(env, obj, v, id.Pos())
		return
	}
	lt := env.typeOf(lhs)
	loc := env.lvalue(lhs)
	if v.Loc != nil {
		v = Val{T: env.term(v, lhs.Pos()), GoT: v.GoT}
	}
	// a store to a field that external (opaque) struct types do not model is not observable: skip it
	if se, ok := lhs.(*ast.SelectorExpr); ok && len(loc.Path) > 0 && loc.Path[len(loc.Path)-1].Kind == "field" {
		if bt := env.typeOf(se.X); bt != nil {
			t := bt
			if p, isP := t.Underlying().(*types.Pointer); isP {
				t = p.Elem()
			}
			bs := c.eng.Sorts.SortOf(t)
			if bsi := c.eng.Sorts.Info(bs); bsi != nil && bsi.Kind == KStruct && len(bsi.Fields) > 0 && bsi.Fields[0].Name == "$id" {
				if _, _, has := c.eng.Sorts.field(Term{"x", bs}, se.Sel.Name); !has {
					c.noteOnce("store to field " + se.Sel.Name + " of external type " + bs + " is not modelled (ignored)")
					return
				}
			}
		}
	}
	v = env.convertVal(v, v.GoT, lt, lhs.Pos())
	// safety and frame obligations along the path
	c.checkWrite(env, lhs, loc)
	bump := true
	for _, pe := range loc.Path {
		if pe.Kind == "index" {
			bump = false
		}
	}
	env.writeLoc(loc, v.T, lhs.Pos(), bump)
}

// checkWrite emits the obligations of a store: bounds, nil map, nil pointer, frame.
func (c *FnCtx) checkWrite(env *Env, lhs ast.Expr, loc *Loc) {
	ss := c.eng.Sorts
	root := env.rootTerm(loc.Root, lhs.Pos())
	cur := root
	inMod := env.rootInModifies(lhs)
	_, isParam := c.paramSet()[c.resolveAlias(loc.Root)]
	if loc.NilCond != "false" {
		env.safe("safe:nil-deref", lhs.Pos(), not(loc.NilCond), "pointer is non-nil")
	}
	for i, pe := range loc.Path {
		si := ss.Info(cur.Sort)
		switch pe.Kind {
		case "deref":
			env.safe("safe:nil-deref", lhs.Pos(), app(cur.Sort+".nonnil", cur.S), "pointer is non-nil")
			if isParam && !inMod {
				env.safe("frame:store", lhs.Pos(), "false", "store through pointer parameter that is not listed in modifies")
			}
		case "field":
			if si != nil && si.Kind == KPtr {
				env.safe("safe:nil-deref", lhs.Pos(), app(cur.Sort+".nonnil", cur.S), "pointer is non-nil")
				if isParam && !inMod {
					env.safe("frame:store", lhs.Pos(), "false", "store through pointer parameter that is not listed in modifies")
				}
			}
		case "index":
			if si != nil && si.Kind == KSlice {
				env.safe("safe:index", lhs.Pos(), and(app("<=", "0", pe.Idx.S), app("<", pe.Idx.S, ss.slLen(cur).S)), "index in range")
				if !inMod {
					env.safe("frame:store", lhs.Pos(), ss.slOwn(cur), "element store into a slice owned by this call or listed in modifies")
				}
				if c.aliased(env.st, loc.Root) {
					env.fail(lhs.Pos(), "element store through %s, a local copy of another slice header (aliasing is outside the value model)", loc.Root.Name())
				}
			} else if si != nil && si.Kind == KArray {
				env.safe("safe:index", lhs.Pos(), and(app("<=", "0", pe.Idx.S), app("<", pe.Idx.S, fmt.Sprint(si.N))), "index in range")
			}
		case "mapidx":
			if i == len(loc.Path)-1 {
				env.safe("safe:nil-map-write", lhs.Pos(), app(cur.Sort+".nonnil", cur.S), "map is non-nil")
			}
		}
		cur = env.readPath(root, loc.Path[:i+1], lhs.Pos(), false)
	}
}

func (c *FnCtx) paramSet() map[types.Object]bool {
	m := map[types.Object]bool{}
	for _, p := range c.params {
		m[p] = true
	}
	if c.recv != nil {
		m[c.recv] = true
	}
	return m
}

// aliased: local slice variable initialised from a range clause over a container
// (a header copy sharing the backing array).
func (c *FnCtx) aliased(st *State, o types.Object) bool {
	_, ok := st.spec["alias:"+o.Name()+fmt.Sprint(o.Pos())]
	return ok
}

func (c *FnCtx) markAliased(st *State, o types.Object) {
	st.spec["alias:"+o.Name()+fmt.Sprint(o.Pos())] = Val{}
}

// ---- loops ----

// assignedVars collects the roots assigned in a statement (syntactic over-approximation).
func (c *FnCtx) assignedVars(n ast.Node) []types.Object {
	set := map[types.Object]bool{}
	// pointer variables with a location: x := &y..., x := f(y) with returns_elem
	ptrRoot := map[types.Object]types.Object{}
	ast.Inspect(c.fi.Decl.Body, func(nn ast.Node) bool {
		as, ok := nn.(*ast.AssignStmt)
		if !ok || len(as.Lhs) != 1 || len(as.Rhs) != 1 {
			return true
		}
		lid, ok := as.Lhs[0].(*ast.Ident)
		if !ok {
			return true
		}
		lo := c.info.ObjectOf(lid)
		switch r := unparen(as.Rhs[0]).(type) {
		case *ast.UnaryExpr:
			if r.Op == token.AND {
				if rid := rootIdent(r.X); rid != nil {
					ptrRoot[lo] = c.info.ObjectOf(rid)
				}
			}
		case *ast.CallExpr:
			if fid, ok := unparen(r.Fun).(*ast.Ident); ok {
				if fn, ok := c.info.ObjectOf(fid).(*types.Func); ok {
					if sp := c.eng.Contracts.Funcs[c.eng.keyOfFunc(fn)]; sp != nil && sp.RetElem != "" {
						_, pn, _, _ := specParamNames(sp.Decl)
						for i, n := range pn {
							if n == sp.RetElem && i < len(r.Args) {
								if rid := rootIdent(r.Args[i]); rid != nil {
									ptrRoot[lo] = c.info.ObjectOf(rid)
								}
							}
						}
					}
				}
			}
		}
		return true
	})
	add := func(e ast.Expr) {
		if id := rootIdent(e); id != nil && id.Name != "_" {
			if o := c.info.ObjectOf(id); o != nil {
				if _, ok := o.(*types.Var); ok {
					set[o] = true
					if r, ok := ptrRoot[o]; ok && r != nil {
						// a store below a pointer variable reaches the variable it points into
						if _, isId := unparen(e).(*ast.Ident); !isId {
							set[r] = true
						}
					}
				}
			}
		}
	}
	ast.Inspect(n, func(nn ast.Node) bool {
		switch x := nn.(type) {
		case *ast.AssignStmt:
			for _, l := range x.Lhs {
				add(l)
			}
		case *ast.IncDecStmt:
			add(x.X)
		case *ast.RangeStmt:
			if x.Key != nil {
				add(x.Key)
			}
			if x.Value != nil {
				add(x.Value)
			}
		case *ast.CallExpr:
			// a callee with a contract only modifies what its contract lists
			var cspec *FuncSpec
			var cfn *types.Func
			switch f := unparen(x.Fun).(type) {
			case *ast.Ident:
				cfn, _ = c.info.ObjectOf(f).(*types.Func)
			case *ast.SelectorExpr:
				if sel, ok := c.info.Selections[f]; ok {
					if sel.Kind() == types.MethodVal {
						cfn, _ = sel.Obj().(*types.Func)
					} else if ts, ok := c.spec.Calls[exprString(f)]; ok && len(ts) >= 1 {
						if fi := c.eng.Funcs[c.spec.Pkg+"."+ts[0]]; fi != nil {
							cfn = fi.Obj
						}
					}
				} else {
					cfn, _ = c.info.ObjectOf(f.Sel).(*types.Func)
				}
			}
			if cfn != nil {
				cspec = c.eng.Contracts.Funcs[c.eng.keyOfFunc(cfn)]
			}
			if cspec != nil {
				recvName, pnames, _, _ := specParamNames(cspec.Decl)
				mods := map[string]bool{}
				for _, m := range cspec.Modifies {
					mods[m] = true
				}
				if se, ok := unparen(x.Fun).(*ast.SelectorExpr); ok && recvName != "" && mods[recvName] {
					if sel, ok := c.info.Selections[se]; ok && sel.Kind() == types.MethodVal {
						add(se.X)
						if id, ok := unparen(se.X).(*ast.Ident); ok {
							if r, ok := ptrRoot[c.info.ObjectOf(id)]; ok && r != nil {
								set[r] = true
							}
						}
					}
				}
				for i, a := range x.Args {
					if i < len(pnames) && mods[pnames[i]] {
						add(a)
						if ue, ok := unparen(a).(*ast.UnaryExpr); ok && ue.Op == token.AND {
							add(ue.X)
						}
						if id, ok := unparen(a).(*ast.Ident); ok {
							if r, ok := ptrRoot[c.info.ObjectOf(id)]; ok && r != nil {
								set[r] = true
							}
						}
					}
				}
				return true
			}
			// method call with pointer receiver on addressable operand, or pointer args
			if se, ok := unparen(x.Fun).(*ast.SelectorExpr); ok {
				if sel, ok := c.info.Selections[se]; ok && sel.Kind() == types.MethodVal {
					if fn, ok := sel.Obj().(*types.Func); ok {
						sig := fn.Type().(*types.Signature)
						if sig.Recv() != nil {
							if _, isPtr := sig.Recv().Type().Underlying().(*types.Pointer); isPtr {
								add(se.X)
							}
						}
					}
				}
			}
			for _, a := range x.Args {
				if t := c.info.TypeOf(a); t != nil {
					if _, isPtr := t.Underlying().(*types.Pointer); isPtr {
						add(a)
						if ue, ok := unparen(a).(*ast.UnaryExpr); ok && ue.Op == token.AND {
							add(ue.X)
						}
						if id, ok := unparen(a).(*ast.Ident); ok {
							if r, ok := ptrRoot[c.info.ObjectOf(id)]; ok && r != nil {
								set[r] = true
							}
						}
					}
				}
			}
			if id, ok := unparen(x.Fun).(*ast.Ident); ok && (id.Name == "copy" || id.Name == "delete") && len(x.Args) > 0 {
				add(x.Args[0])
			}
		}
		return true
	})
	var out []types.Object
	for o := range set {
		out = append(out, o)
	}
	sort.Slice(out, func(i, j int) bool { return out[i].Pos() < out[j].Pos() })
	return out
}

func (c *FnCtx) havoc(st *State, objs []types.Object) {
	for _, o := range objs {
		if _, isLoc := st.locs[o]; isLoc {
			delete(st.locs, o)
		}
		if _, ok := st.vars[o]; !ok {
			if _, ok2 := o.(*types.Var); !ok2 {
				continue
			}
			// declared inside the loop: nothing to havoc
			if _, known := st.vars[o]; !known {
				continue
			}
		}
		sort := c.eng.Sorts.SortOf(o.Type())
		nv := c.fresh(o.Name(), sort)
		st.Assume(c.typeFacts(nv, o.Type()))
		st.vars[o] = nv
		st.vers[o]++
	}
}

// havocIn havocs the variables a loop body may modify; a pointer or map that the body only writes through
// (never assigns) keeps its nil-ness.
func (c *FnCtx) havocIn(st *State, objs []types.Object, body ast.Node) {
	direct := map[types.Object]bool{}
	mark := func(e ast.Expr) {
		if id, ok := unparen(e).(*ast.Ident); ok {
			if o := c.info.ObjectOf(id); o != nil {
				direct[o] = true
			}
		}
	}
	ast.Inspect(body, func(n ast.Node) bool {
		switch x := n.(type) {
		case *ast.AssignStmt:
			for _, l := range x.Lhs {
				mark(l)
			}
		case *ast.IncDecStmt:
			mark(x.X)
		case *ast.RangeStmt:
			if x.Key != nil {
				mark(x.Key)
			}
			if x.Value != nil {
				mark(x.Value)
			}
		case *ast.UnaryExpr:
			if x.Op == token.AND {
				mark(x.X)
			}
		}
		return true
	})
	type keep struct {
		o   types.Object
		old Term
	}
	var keeps []keep
	for _, o := range objs {
		if old, ok := st.vars[o]; ok && !direct[o] {
			// a pointer or a map that the body only writes through (p.f = v, m[k] = v), never assigns, keeps its nil-ness
			if si := c.eng.Sorts.Info(old.Sort); si != nil && (si.Kind == KPtr || si.Kind == KMap) {
				keeps = append(keeps, keep{o, old})
			}
		}
	}
	c.havoc(st, objs)
	for _, k := range keeps {
		if nv, ok := st.vars[k.o]; ok && nv.Sort == k.old.Sort {
			st.Assume(eq(app(nv.Sort+".nonnil", nv.S), app(k.old.Sort+".nonnil", k.old.S)))
		}
	}
}

// havocGhostsIn havocs the ghost variables that callees inside the node modify (loop condition, post statement).
func (c *FnCtx) havocGhostsIn(st *State, node ast.Node) {
	mods := map[string]bool{}
	c.calleeGhostMods(node, mods)
	for _, m := range sortedKeys(mods) {
		if old, ok := st.spec[m]; ok {
			st.spec[m] = Val{T: c.fresh(m, old.T.Sort)}
		}
	}
}

func (c *FnCtx) calleeGhostMods(body ast.Node, mods map[string]bool) {
	ast.Inspect(body, func(n ast.Node) bool {
		ce, ok := n.(*ast.CallExpr)
		if !ok {
			return true
		}
		var fn *types.Func
		switch f := unparen(ce.Fun).(type) {
		case *ast.Ident:
			fn, _ = c.info.ObjectOf(f).(*types.Func)
		case *ast.SelectorExpr:
			if sel, ok := c.info.Selections[f]; ok {
				fn, _ = sel.Obj().(*types.Func)
			} else {
				fn, _ = c.info.ObjectOf(f.Sel).(*types.Func)
			}
		}
		if fn != nil {
			if sp := c.eng.Contracts.Funcs[c.eng.keyOfFunc(fn)]; sp != nil {
				for _, m := range sp.Modifies {
					if strings.HasPrefix(m, "ghost.") {
						mods[m] = true
					}
				}
			}
		}
		return true
	})
}

func (c *FnCtx) havocGhosts(st *State, body ast.Node) {
	// ghost variables modified by callees inside the loop
	mods := map[string]bool{}
	ast.Inspect(body, func(n ast.Node) bool {
		ce, ok := n.(*ast.CallExpr)
		if !ok {
			return true
		}
		var fn *types.Func
		switch f := unparen(ce.Fun).(type) {
		case *ast.Ident:
			fn, _ = c.info.ObjectOf(f).(*types.Func)
		case *ast.SelectorExpr:
			if sel, ok := c.info.Selections[f]; ok {
				fn, _ = sel.Obj().(*types.Func)
			} else {
				fn, _ = c.info.ObjectOf(f.Sel).(*types.Func)
			}
		}
		if fn != nil {
			if sp := c.eng.Contracts.Funcs[c.eng.keyOfFunc(fn)]; sp != nil {
				for _, m := range sp.Modifies {
					if strings.HasPrefix(m, "ghost.") {
						mods[m] = true
					}
				}
			}
		}
		return true
	})
	for _, g := range c.spec.Ghosts {
		// statements at entry or exit are not inside any loop
		if g.At == "entry" || g.At == "exit" {
			continue
		}
		if strings.HasPrefix(g.Stmt, "ghost.") {
			if k := strings.Index(g.Stmt, "="); k > 0 {
				mods[strings.TrimSpace(g.Stmt[:k])] = true
			}
		}
	}
	for _, m := range sortedKeys(mods) {
		if old, ok := st.spec[m]; ok {
			st.spec[m] = Val{T: c.fresh(m, old.T.Sort)}
		}
	}
}

func (c *FnCtx) loopSpec(s ast.Stmt) *LoopSpec {
	n := c.loopOrd[s]
	if ls, ok := c.spec.Loops[n]; ok {
		return ls
	}
	// a loop the contract says nothing about is cut with the trivial invariant: everything it assigns is unknown behind
	// it. Sound, but what fails behind it for lack of an invariant is a limit of the contract, not of the code
	pos := c.eng.Fset.Position(s.Pos())
	note := fmt.Sprintf("loop at line %d has no invariant in the contract", pos.Line)
	seen := false
	for _, x := range c.bareLoops {
		if x == note {
			seen = true
		}
	}
	if !seen {
		c.bareLoops = append(c.bareLoops, note)
	}
	return &LoopSpec{N: n}
}

func (c *FnCtx) checkInvariants(st *State, ls *LoopSpec, phase string, pos token.Pos) {
	for i, inv := range ls.Invariants {
		lbl := inv.Label
		if lbl == "" {
			lbl = fmt.Sprintf("i%d", i+1)
		}
		var g string
		c.guarded(st, func() { g = c.specEnvAt(st, pos).evalSpecBool(inv) })
		if st.dead {
			return
		}
		props := inv.Props
		if props == nil {
			props = c.spec.Props
		}
		save := c.curPos
		c.curPos = pos
		c.oblige(st, fmt.Sprintf("loop%d.inv", ls.N), lbl+"."+phase, g, props, inv.Expr)
		c.curPos = save
	}
}

func (c *FnCtx) assumeInvariants(st *State, ls *LoopSpec, pos token.Pos) {
	for _, inv := range ls.Invariants {
		c.guarded(st, func() { st.AssumeFor(c.specEnvAt(st, pos).evalSpecBool(inv), inv) })
	}
}

func (c *FnCtx) execFor(x *ast.ForStmt, st *State) []Out {
	ls := c.loopSpec(x)
	if x.Init != nil {
		c.execStmt(x.Init, st)
	}
	bodyPos := x.Body.Lbrace + 1
	c.runGhosts(st, fmt.Sprintf("before loop %d", ls.N), x.Pos())
	c.checkInvariants(st, ls, "init", bodyPos)
	mods := c.assignedVars(x.Body)
	if x.Post != nil {
		mods = append(mods, c.assignedVars(x.Post)...)
	}
	if x.Cond != nil {
		// the condition is evaluated on every iteration: calls in it (for s.Scan() { ... }) modify state too
		mods = append(mods, c.assignedVars(&ast.ExprStmt{X: x.Cond})...)
	}
	c.havocIn(st, mods, x.Body)
	c.havocGhosts(st, x.Body)
	if x.Cond != nil {
		c.havocGhostsIn(st, x.Cond)
	}
	if x.Post != nil {
		c.havocGhostsIn(st, x.Post)
	}
	c.assumeInvariants(st, ls, bodyPos)
	var outs []Out
	// decreases: value at loop head
	var decHead string
	if ls.Decreases != "" {
		c.guarded(st, func() { decHead = c.specEnvAt(st, bodyPos).evalSpecString(ls.Decreases).T.S })
	}
	exitSt := st.Clone()
	iterSt := st
	if x.Cond != nil {
		env := c.codeEnv(iterSt)
		var cnd string
		c.guarded(iterSt, func() { cnd = env.term(env.eval(x.Cond), x.Pos()).S })
		if iterSt.dead {
			return nil
		}
		// re-evaluate in exit state (facts learnt during evaluation are in iterSt only; clone after)
		exitSt = iterSt.Clone()
		iterSt.Assume(cnd)
		exitSt.Assume(not(cnd))
		exitSt.path = append(exitSt.path, fmt.Sprintf("loop%d:exit", ls.N))
		c.runGhosts(exitSt, fmt.Sprintf("after loop %d", ls.N), x.Body.Rbrace)
		outs = append(outs, Out{exitSt, oNormal})
	} else {
		exitSt.dead = true
	}
	iterSt.path = append(iterSt.path, fmt.Sprintf("loop%d:iter", ls.N))
	c.oblige(iterSt, "cover", fmt.Sprintf("loop%d.iter", ls.N), "false", c.spec.Props, "loop body reachable under the invariant")
	c.obls[len(c.obls)-1].ExpectSat = true
	c.runGhosts(iterSt, fmt.Sprintf("loop %d body", ls.N), bodyPos)
	for _, o := range c.execBlock(x.Body.List, iterSt) {
		switch o.kind {
		case oNormal, oContinue:
			c.runGhosts(o.st, fmt.Sprintf("loop %d end", ls.N), x.Body.Rbrace)
			if x.Post != nil {
				c.execStmt(x.Post, o.st)
			}
			c.checkInvariants(o.st, ls, "preserve", bodyPos)
			if decHead != "" {
				var d string
				c.guarded(o.st, func() { d = c.specEnvAt(o.st, bodyPos).evalSpecString(ls.Decreases).T.S })
				c.oblige(o.st, fmt.Sprintf("loop%d.decreases", ls.N), "", and(app("<", d, decHead), app("<=", "0", decHead)), c.spec.Props, ls.Decreases)
			}
		case oBreak:
			o.kind = oNormal
			outs = append(outs, o)
		case oReturn:
			outs = append(outs, o)
		}
	}
	return outs
}

func (c *FnCtx) execRange(x *ast.RangeStmt, st *State) []Out {
	ls := c.loopSpec(x)
	env := c.codeEnv(st)
	ss := c.eng.Sorts
	var coll Term
	c.guarded(st, func() { coll = env.term(env.eval(x.X), x.Pos()) })
	if st.dead {
		return nil
	}
	coll = c.nameTerm(st, "range", coll)
	si := ss.Info(coll.Sort)
	bodyPos := x.Body.Lbrace + 1
	binder := ls.Binder
	if binder == "" {
		binder = fmt.Sprintf("k%d", ls.N)
	}
	isMap := si != nil && si.Kind == KMap
	isSlice := si != nil && (si.Kind == KSlice || si.Kind == KArray)
	if !isMap && !isSlice && coll.Sort != SString {
		c.unsupported(x.Pos(), "range over sort %s", coll.Sort)
		return nil
	}
	if coll.Sort == SString {
		c.unsupported(x.Pos(), "range over string")
		return nil
	}
	var n Term
	if isSlice {
		if si.Kind == KArray {
			n = tInt(si.N)
		} else {
			n = ss.slLen(coll)
			st.Assume(and(app("<=", "0", n.S), app("<=", n.S, MAXLEN)))
		}
		st.spec[binder] = Val{T: tInt(0)}
	} else {
		// map: ghost visited set
		vis0 := fmt.Sprintf("((as const (Array %s Bool)) false)", si.Key)
		st.spec[binder] = Val{T: Term{vis0, fmt.Sprintf("(Array %s Bool)", si.Key)}}
		st.spec[binder+".n"] = Val{T: tInt(0)}
	}
	st.spec[binder+".coll"] = Val{T: coll}
	c.runGhosts(st, fmt.Sprintf("before loop %d", ls.N), x.Pos())
	c.checkInvariants(st, ls, "init", bodyPos)
	mods := c.assignedVars(x.Body)
	// range variables assigned by the loop header itself are not havocked here (they are bound per iteration)
	c.havocIn(st, mods, x.Body)
	c.havocGhosts(st, x.Body)
	var k Term
	if isSlice {
		k = c.fresh(binder, SInt)
		st.Assume(and(app("<=", "0", k.S), app("<=", k.S, n.S)))
		st.spec[binder] = Val{T: k}
	} else {
		k = c.fresh(binder, fmt.Sprintf("(Array %s Bool)", si.Key))
		cnt := c.fresh(binder+".n", SInt)
		st.spec[binder] = Val{T: k}
		st.spec[binder+".n"] = Val{T: cnt}
		// visited ⊆ keys
		st.Assume(fmt.Sprintf("(forall ((x!q %s)) (=> (select %s x!q) (select %s x!q)))", si.Key, k.S, app(coll.Sort+".has", coll.S)))
		st.Assume(and(app("<=", "0", cnt.S), app("<=", cnt.S, app(coll.Sort+".card", coll.S))))
	}
	c.assumeInvariants(st, ls, bodyPos)
	var outs []Out
	exitSt := st.Clone()
	iterSt := st
	var curKey Term
	if isSlice {
		exitSt.Assume(eq(k.S, n.S))
		iterSt.Assume(app("<", k.S, n.S))
	} else {
		exitSt.Assume(fmt.Sprintf("(forall ((x!q %s)) (=> (select %s x!q) (select %s x!q)))", si.Key, app(coll.Sort+".has", coll.S), k.S))
		exitSt.Assume(eq(st.spec[binder+".n"].T.S, app(coll.Sort+".card", coll.S)))
		curKey = c.fresh("key", si.Key)
		iterSt.Assume(and(app("select", app(coll.Sort+".has", coll.S), curKey.S), not(app("select", k.S, curKey.S))))
		iterSt.Assume(app("<", st.spec[binder+".n"].T.S, app(coll.Sort+".card", coll.S)))
		iterSt.spec[binder+".key"] = Val{T: curKey}
	}
	exitSt.path = append(exitSt.path, fmt.Sprintf("loop%d:exit", ls.N))
	c.runGhosts(exitSt, fmt.Sprintf("after loop %d", ls.N), x.Body.Rbrace)
	outs = append(outs, Out{exitSt, oNormal})
	iterSt.path = append(iterSt.path, fmt.Sprintf("loop%d:iter", ls.N))
	// bind key/value
	ienv := c.codeEnv(iterSt)
	bind := func(e ast.Expr, v Val) {
		if e == nil {
			return
		}
		id, ok := e.(*ast.Ident)
		if !ok {
			ienv.fail(e.Pos(), "range variable is not an identifier")
		}
		if id.Name == "_" {
			return
		}
		obj := c.info.ObjectOf(id)
		iterSt.vars[obj] = c.nameTerm(iterSt, id.Name, v.T)
		delete(iterSt.locs, obj)
		if osi := ss.Info(v.T.Sort); osi != nil && osi.Kind == KSlice {
			c.markAliased(iterSt, obj)
		}
	}
	c.guarded(iterSt, func() {
		if isSlice {
			bind(x.Key, Val{T: k})
			arr := coll.S
			if si.Kind == KSlice {
				arr = ss.slArr(coll)
			}
			bind(x.Value, Val{T: Term{app("select", arr, k.S), si.Elem}})
		} else {
			bind(x.Key, Val{T: curKey})
			bind(x.Value, Val{T: Term{app("select", app(coll.Sort+".val", coll.S), curKey.S), si.Elem}})
		}
	})
	c.oblige(iterSt, "cover", fmt.Sprintf("loop%d.iter", ls.N), "false", c.spec.Props, "loop body reachable under the invariant")
	c.obls[len(c.obls)-1].ExpectSat = true
	c.runGhosts(iterSt, fmt.Sprintf("loop %d body", ls.N), bodyPos)
	for _, o := range c.execBlock(x.Body.List, iterSt) {
		switch o.kind {
		case oNormal, oContinue:
			c.runGhosts(o.st, fmt.Sprintf("loop %d end", ls.N), x.Body.Rbrace)
			if isSlice {
				o.st.spec[binder] = Val{T: Term{app("+", k.S, "1"), SInt}}
			} else {
				o.st.spec[binder] = Val{T: Term{app("store", k.S, curKey.S, "true"), k.Sort}}
				o.st.spec[binder+".n"] = Val{T: Term{app("+", st.spec[binder+".n"].T.S, "1"), SInt}}
			}
			c.checkInvariants(o.st, ls, "preserve", bodyPos)
		case oBreak:
			o.kind = oNormal
			outs = append(outs, o)
		case oReturn:
			outs = append(outs, o)
		}
	}
	return outs
}

// ---- ghost statements ----

// hasSite: does the contract attach anything to this site?
func (c *FnCtx) hasSite(site string) bool {
	for _, u := range c.spec.Uses {
		if u.At == site {
			return true
		}
	}
	for _, g := range c.spec.Ghosts {
		if g.At == site {
			return true
		}
	}
	for _, a := range c.spec.Asserts {
		if a.At == site {
			return true
		}
	}
	return false
}

func (c *FnCtx) runGhosts(st *State, site string, pos token.Pos) {
	for _, u := range c.spec.Uses {
		if u.At != site {
			continue
		}
		c.siteSeen("use|" + u.At + "|" + u.Call)
		// a use whose arguments name variables that do not exist on this path is skipped (only hypotheses are lost)
		func() {
			defer func() {
				if r := recover(); r != nil {
					if ue, ok := r.(unsupportedErr); ok && strings.Contains(ue.msg, "unknown name") {
						return
					}
					panic(r)
				}
			}()
			c.guarded(st, func() {
				defer func() {
					if r := recover(); r != nil {
						if ue, ok := r.(unsupportedErr); ok && strings.Contains(ue.msg, "unknown name") {
							return
						}
						panic(r)
					}
				}()
				c.useLemma(st, u, pos)
			})
		}()
		if st.dead {
			return
		}
	}
	for _, g := range c.spec.Ghosts {
		if g.At != site {
			continue
		}
		c.siteSeen("ghost|" + g.At + "|" + g.Stmt)
		c.guarded(st, func() { c.execGhost(st, g, pos) })
	}
	for _, a := range c.spec.Asserts {
		if a.At != site {
			continue
		}
		var goal string
		skipped := false
		c.guarded(st, func() {
			defer func() {
				if r := recover(); r != nil {
					if ue, ok := r.(unsupportedErr); ok && strings.Contains(ue.msg, "unknown name") {
						skipped = true // the assert mentions a variable that does not exist on this path
						return
					}
					panic(r)
				}
			}()
			goal = c.specEnvAt(st, pos).evalSpecBool(a.Clause)
		})
		if st.dead {
			return
		}
		if skipped {
			continue
		}
		if c.assertSeen == nil {
			c.assertSeen = map[string]bool{}
		}
		c.assertSeen[a.Label+"|"+a.Expr] = true
		props := a.Props
		if props == nil {
			props = c.spec.Props
		}
		lbl := a.Label
		if lbl == "" {
			lbl = strings.ReplaceAll(site, " ", "_")
		}
		save := c.curPos
		c.curPos = pos
		if a.Hint {
			// hints: pass 1 collects them as obligations (not assumed); pass 2 assumes the proved instances only
			key := hintKey(c.fi.Key, lbl, st.path)
			if c.hintPass == 1 {
				// stated, then assumed for the following hints (a chain, as with asserts)
				c.oblige(st, "hint", lbl, goal, props, a.Expr)
				c.obls[len(c.obls)-1].HintKey = key
				st.Assume(goal)
			} else {
				// pass 2: only the proved prefix of the chain is assumed
				_, broken := st.spec["hint:broken"]
				if c.provedHints[key] && !broken {
					st.Assume(goal)
				} else {
					st.spec["hint:broken"] = Val{}
				}
			}
			c.curPos = save
			continue
		}
		c.oblige(st, "ghost", lbl, goal, props, a.Expr)
		c.curPos = save
		st.AssumeFor(goal, a.Clause)
	}
}

func (c *FnCtx) execGhost(st *State, g GhostStmt, pos token.Pos) {
	env := c.specEnvAt(st, pos)
	stmt := strings.TrimSpace(g.Stmt)
	if strings.HasPrefix(stmt, "assume ") {
		st.Assume(env.evalSpecBool(Clause{Expr: strings.TrimPrefix(stmt, "assume "), File: g.File, Line: g.Line}))
		return
	}
	if strings.HasPrefix(stmt, "havoc ") {
		name := strings.TrimSpace(strings.TrimPrefix(stmt, "havoc "))
		old, ok := st.spec[name]
		if !ok {
			panic(unsupportedErr{"havoc of unknown ghost " + name})
		}
		st.spec[name] = Val{T: c.fresh(name, old.T.Sort)}
		return
	}
	if strings.HasPrefix(stmt, "let ") {
		rest := strings.TrimPrefix(stmt, "let ")
		k := strings.Index(rest, "=")
		if k < 0 {
			panic(unsupportedErr{"ghost let needs '=': " + stmt})
		}
		name := strings.TrimSpace(rest[:k])
		v := env.evalSpecString(strings.TrimSpace(rest[k+1:]))
		if v.Loc != nil {
			st.spec[name] = v
		} else {
			st.spec[name] = Val{T: c.nameTerm(st, name, env.term(v, pos)), Const: v.Const}
		}
		return
	}
	k := strings.Index(stmt, "=")
	if k < 0 {
		panic(unsupportedErr{"ghost statement needs '=': " + stmt})
	}
	lhs := strings.TrimSpace(stmt[:k])
	rhs := env.evalSpecString(strings.TrimSpace(stmt[k+1:]))
	rt := env.term(rhs, pos)
	if strings.HasPrefix(lhs, "ghost.") {
		if old, ok := st.spec[lhs]; ok && old.T.Sort != rt.Sort {
			rt = env.coerce(rhs, old.T.Sort).T
		}
		st.spec[lhs] = Val{T: c.nameTerm(st, lhs, rt)}
		return
	}
	// param.field[.field]
	parts := strings.Split(lhs, ".")
	obj, ok := c.specNames[parts[0]]
	if !ok {
		// a local variable of the function
		var best types.Object
		for o := range st.vars {
			if o.Name() == parts[0] && (best == nil || best.Pos() < o.Pos()) {
				if v, isVar := o.(*types.Var); isVar && v.Pkg() != nil && v.Parent() != v.Pkg().Scope() {
					best = o
				}
			}
		}
		if best == nil {
			panic(unsupportedErr{"ghost assignment to unknown root " + parts[0]})
		}
		obj = best
	}
	var path []PathElem
	for _, f := range parts[1:] {
		path = append(path, PathElem{Kind: "field", Field: f})
	}
	loc := &Loc{Root: obj, Path: path, NilCond: "false", Ver: st.vers[obj]}
	env.writeLoc(loc, rt, pos, false)
}

// useLemma instantiates a lemma (proved separately) at explicit arguments.
func (c *FnCtx) useLemma(st *State, u UseSpec, pos token.Pos) {
	call := strings.TrimSpace(u.Call)
	k := strings.Index(call, "(")
	if k < 0 || !strings.HasSuffix(call, ")") {
		panic(unsupportedErr{"use needs name(args): " + call})
	}
	name := call[:k]
	lem := c.eng.Contracts.Funcs[c.spec.Pkg+".lemma."+name]
	if lem == nil {
		panic(unsupportedErr{"unknown lemma " + name})
	}
	_, pnames, _, _ := specParamNames(lem.Decl)
	args := splitTopCommas(call[k+1 : len(call)-1])
	if len(args) == 1 && strings.TrimSpace(args[0]) == "" {
		args = nil
	}
	if len(args) != len(pnames) {
		panic(unsupportedErr{fmt.Sprintf("lemma %s expects %d arguments", name, len(pnames))})
	}
	env := c.specEnvAt(st, pos)
	names := map[string]Val{}
	for i, a := range args {
		v := env.evalSpecString(strings.TrimSpace(a))
		names[pnames[i]] = Val{T: env.term(v, pos), Const: v.Const}
	}
	// coerce untyped constants to the declared parameter sorts
	if lem.Decl.Type.Params != nil {
		i := 0
		for _, f := range lem.Decl.Type.Params.List {
			for range f.Names {
				if pt, err := c.eng.evalType(c.fi.Pkg, exprString2(f.Type)); err == nil {
					names[pnames[i]] = env.coerce(names[pnames[i]], c.eng.Sorts.SortOf(pt))
				}
				i++
			}
		}
	}
	lenv := &Env{c: c, st: st, names: names, pkg: c.fi.Pkg, foreign: true}
	// "use L(args) when cond": the instance is only justified, and only assumed, under the guard
	guard := "true"
	if u.When != "" {
		guard = env.evalSpecBool(Clause{Expr: u.When, File: u.File, Line: u.Line})
	}
	for i, r := range lem.Requires {
		g := implies(guard, lenv.evalSpecBool(r))
		lbl := r.Label
		if lbl == "" {
			lbl = fmt.Sprintf("r%d", i+1)
		}
		save := c.curPos
		c.curPos = pos
		c.oblige(st, "pre@lemma."+name, lbl+"@"+strings.ReplaceAll(u.At, " ", "_"), g, c.spec.Props, r.Expr)
		c.curPos = save
	}
	for _, en := range lem.Ensures {
		st.Assume(implies(guard, lenv.evalSpecBool(en)))
	}
}

func exprString2(e ast.Expr) string {
	var b strings.Builder
	printer.Fprint(&b, token.NewFileSet(), e)
	return b.String()
}

func hintKey(fn, label string, path []string) string {
	return fn + "|" + label + "|" + strings.Join(path, ";")
}

func (c *FnCtx) siteSeen(k string) {
	if c.assertSeen == nil {
		c.assertSeen = map[string]bool{}
	}
	c.assertSeen[k] = true
}
