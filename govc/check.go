package main

func cmdCheck(args []string) int    { return 3 }
func cmdSelftest(args []string) int { return 3 }
