package main

import (
	"encoding/json"
	"flag"
	"fmt"
	"os"
	"path/filepath"
	"sort"
	"strconv"
	"strings"
	"time"
)

// KnownFinding is an entry of /verif/known_findings.json.
type KnownFinding struct {
	Property   string          `json:"property"`
	Obligation string          `json:"obligation"`
	Summary    string          `json:"summary"`
	Fixed      bool            `json:"fixed,omitempty"`
	Commit     string          `json:"commit,omitempty"`
	Witness    json.RawMessage `json:"witness,omitempty"`
	Harness    string          `json:"harness,omitempty"`
}

func loadKnownFindings(verif string) []KnownFinding {
	var kf struct {
		Findings []KnownFinding `json:"findings"`
	}
	data, err := os.ReadFile(filepath.Join(verif, "known_findings.json"))
	if err != nil {
		return nil
	}
	json.Unmarshal(data, &kf)
	return kf.Findings
}

type fnEvidence struct {
	Name        string `json:"name"`
	File        string `json:"file"`
	Obligations int    `json:"obligations"`
	Discharged  int    `json:"discharged"`
}

// propFuncs returns the contract keys (functions and lemmas) that carry obligations for a property.
func (e *Engine) propFuncs(prop string) []string {
	var keys []string
	for k, f := range e.Contracts.Funcs {
		if f.Extern {
			continue
		}
		if hasProp(f, prop) {
			keys = append(keys, k)
		}
	}
	sort.Strings(keys)
	return keys
}

func hasProp(f *FuncSpec, prop string) bool {
	for _, p := range f.Props {
		if p == prop {
			return true
		}
	}
	for _, p := range f.FrameProps {
		if p == prop {
			return true
		}
	}
	for _, p := range f.Deterministic {
		if p == prop {
			return true
		}
	}
	for _, p := range f.Fresh {
		if p == prop {
			return true
		}
	}
	check := func(cs []Clause) bool {
		for _, c := range cs {
			for _, p := range c.Props {
				if p == prop {
					return true
				}
			}
		}
		return false
	}
	if check(f.Requires) || check(f.Ensures) {
		return true
	}
	for _, l := range f.Loops {
		if check(l.Invariants) {
			return true
		}
	}
	for _, a := range f.Asserts {
		for _, p := range a.Props {
			if p == prop {
				return true
			}
		}
	}
	return false
}

func oblHasProp(o *Obligation, prop string) bool {
	for _, p := range o.Props {
		if p == prop {
			return true
		}
	}
	return false
}

type checkOutcome struct {
	violations []string
	known      []string
	undecided  []string
}

func cmdCheck(args []string) int {
	fs := flag.NewFlagSet("check", flag.ExitOnError)
	tier := fs.String("tier", envOr("VERIF_TIER", "quick"), "quick|thorough")
	var prop string
	if len(args) > 0 && !strings.HasPrefix(args[0], "-") {
		prop = args[0]
		args = args[1:]
	}
	fs.Parse(args)
	if prop == "" && fs.NArg() > 0 {
		prop = fs.Arg(0)
	}
	if prop == "" {
		usage()
	}
	if *tier != "quick" && *tier != "thorough" {
		*tier = "quick"
	}
	seed, _ := strconv.Atoi(envOr("VERIF_SEED", "0"))
	start := time.Now()
	verif := envOr("GOVC_VERIF", "/verif")
	e, err := newEngine("", "")
	if err != nil {
		fmt.Printf("UNDECIDED property=%s reason=cannot load /repo: %v\n", prop, err)
		writeEvidenceUndecided(verif, prop, *tier, seed, start, err.Error())
		return 3
	}
	keys := e.propFuncs(prop)
	outDir := filepath.Join(outBase(verif), "out", prop+"-"+*tier)
	os.RemoveAll(outDir)
	os.MkdirAll(outDir, 0o755)

	hintDir := filepath.Join(outDir, "hints")
	os.MkdirAll(hintDir, 0o755)
	hintsTried, hintsFailed := 0, 0
	hintStale := map[string]bool{}
	abstractedIn := map[string][]string{}
	bareLoopsIn := map[string][]string{}
	HintSolver = func(obls []*Obligation) {
		(&Solver{Dir: hintDir, Timeout: 10, Par: solverPar(), Prelude: e.Prelude(), QFPrelude: e.QFPrelude(), Eng: e, noRetry: true}).SolveAll(obls)
	}
	var all []*Obligation
	var fnEv []fnEvidence
	var unsupported []string
	byFunc := map[string][]*Obligation{}
	// lemmas used (transitively) by the property's functions are proved in the same run: a lemma that is not
	// proved here is not an argument (trusted ones are listed as assumptions instead)
	lemmaOf := map[string]bool{}
	{
		inKeys := map[string]bool{}
		for _, k := range keys {
			inKeys[k] = true
		}
		var visit func(k string)
		visit = func(k string) {
			f := e.Contracts.Funcs[k]
			if f == nil {
				return
			}
			for _, u := range f.Uses {
				call := strings.TrimSpace(u.Call)
				i := strings.Index(call, "(")
				if i < 0 {
					continue
				}
				lk := f.Pkg + ".lemma." + call[:i]
				if l := e.Contracts.Funcs[lk]; l != nil && !lemmaOf[lk] && !inKeys[lk] {
					lemmaOf[lk] = true
					visit(lk)
				}
			}
		}
		for _, k := range keys {
			visit(k)
		}
		for _, lk := range sortedKeys(lemmaOf) {
			keys = append(keys, lk)
		}
	}
	for _, k := range keys {
		res := e.VerifyFunc(k)
		if lemmaOf[k] {
			for _, o := range res.Obligations {
				o.Props = append(o.Props, prop)
			}
		}
		hintsTried += res.HintsTried
		hintsFailed += res.HintsFailed
		if res.HintsFailed > 0 {
			// proof hints are the proof script of the function; on the unchanged tree every hint is proved. A hint that
			// is no longer proved means the script does not fit the code any more: later failures of this function
			// are not reliable on their own (see the rule for stale contracts below)
			hintStale[k] = true
		}
		for _, u := range res.Unsupported {
			unsupported = append(unsupported, k+": "+u)
		}
		if len(res.Abstracted) > 0 {
			// On the unchanged tree every library function the verified code calls has a contract (spec/*.spec). A call
			// without one is code the contracts do not know: its results are arbitrary, so an obligation that depends on
			// them cannot be proved whether or not the property holds - a limit of the tool, not a violation (same rule as
			// for stale contracts: a violation only with a failing input replayed on the real code).
			abstractedIn[k] = res.Abstracted
		}
		if len(res.BareLoops) > 0 {
			bareLoopsIn[k] = res.BareLoops
			fmt.Printf("note: %s: %s\n", k, strings.Join(res.BareLoops, "; "))
		}
		for _, o := range res.Obligations {
			if oblHasProp(o, prop) {
				all = append(all, o)
				byFunc[k] = append(byFunc[k], o)
			}
		}
		fnEv = append(fnEv, fnEvidence{Name: k, File: res.File})
	}
	// ground obligations (tables, constants, tags) for this property
	gobs, gnotes := e.GroundObligations(prop, *tier)
	for _, o := range gobs {
		all = append(all, o)
		byFunc[o.Func] = append(byFunc[o.Func], o)
	}
	seenG := map[string]bool{}
	for _, o := range gobs {
		if !seenG[o.Func] {
			seenG[o.Func] = true
			fnEv = append(fnEv, fnEvidence{Name: o.Func, File: shortPath(o.Pos.Filename)})
		}
	}

	// per-obligation budget: every obligation of the unchanged tree discharges in well under 5 s on an idle machine;
	// the budget leaves a factor of four for a loaded one (timeouts are wall-clock)
	timeout := 20
	if *tier == "thorough" {
		timeout = 120
	}
	sv := &Solver{Dir: outDir, Timeout: timeout, Agreement: *tier == "thorough", Par: solverPar(), Prelude: e.Prelude(), QFPrelude: e.QFPrelude(), Seed: seed, Eng: e}
	sv.SolveAll(all)

	// tally
	oc := checkOutcome{}
	nObl, nDis, nCover, nCovered := 0, 0, 0, 0
	failedByID := map[string][]*Obligation{}
	var failedOrder []string
	// vacuity guards: per cover id, at least one instance must be satisfiable (individual paths may be
	// infeasible under the precondition; a function none of whose return paths is reachable is vacuous)
	coverOK := map[string]bool{}
	coverSeen := map[string]string{}
	for _, o := range all {
		if o.ExpectSat {
			coverSeen[o.ID] = o.GoalText
			if o.Status == "covered" {
				coverOK[o.ID] = true
			}
		}
	}
	for _, id := range sortedKeys(coverSeen) {
		if !coverOK[id] {
			oc.undecided = append(oc.undecided, "vacuity guard: "+id+" is unsatisfiable ("+coverSeen[id]+")")
		}
	}
	for _, o := range all {
		if o.ExpectSat {
			nCover++
			if o.Status == "covered" {
				nCovered++
			}
			continue
		}
		nObl++
		if o.Status == "discharged" {
			nDis++
		} else {
			if _, ok := failedByID[o.ID]; !ok {
				failedOrder = append(failedOrder, o.ID)
			}
			failedByID[o.ID] = append(failedByID[o.ID], o)
		}
	}
	for i := range fnEv {
		for _, o := range byFunc[fnEv[i].Name] {
			if o.ExpectSat {
				continue
			}
			fnEv[i].Obligations++
			if o.Status == "discharged" {
				fnEv[i].Discharged++
			}
		}
	}
	staleFns := map[string]bool{}
	for k := range hintStale {
		staleFns[k] = true
	}
	for k := range abstractedIn {
		staleFns[k] = true
	}
	// a loop without an invariant (on the unchanged tree: only loops whose effect no obligation depends on; the list is
	// in bare_loops_expected below): the contract was not written for this code
	for k := range bareLoopsIn {
		staleFns[k] = true
	}
	for _, u := range unsupported {
		oc.undecided = append(oc.undecided, "unsupported: "+u)
		if k := strings.Index(u, ": "); k > 0 {
			staleFns[u[:k]] = true
		}
	}
	if nObl == 0 {
		oc.undecided = append(oc.undecided, "no obligations generated for "+prop)
	}
	// expected obligation counts (vacuity guard: a lost contract or function shows up as a drop)
	if exp := loadExpected(verif); exp != nil {
		if want, ok := exp[prop]; ok && nObl < want {
			oc.undecided = append(oc.undecided, fmt.Sprintf("obligation count dropped: %d < expected %d", nObl, want))
		}
	}
	// assumption lock
	assumptions := e.assumptionList(prop, keys)

	known := loadKnownFindings(verif)
	replayDir := filepath.Join(outBase(verif), "out", "replay")
	os.MkdirAll(replayDir, 0o755)
	nKnown := 0
	for _, id := range failedOrder {
		obs := failedByID[id]
		var kf *KnownFinding
		for i := range known {
			if known[i].Property == prop && known[i].Obligation == id && !known[i].Fixed {
				kf = &known[i]
			}
		}
		if kf != nil {
			// the recorded witness must still reproduce on the real code
			ok, detail := e.replayKnown(kf)
			if ok {
				fmt.Printf("KNOWN-FINDING: property=%s %s [obligation %s]\n", prop, kf.Summary, id)
				oc.known = append(oc.known, id)
				nKnown += len(obs)
				continue
			}
			fmt.Printf("note: known finding for %s no longer reproduces with its recorded witness (%s); reporting as violation\n", id, detail)
		}
		rp := filepath.Join(replayDir, fmt.Sprintf("%s_%s.json", prop, safeName(id)))
		found, wit := e.findFailingInput(prop, id, obs, *tier, seed)
		// A failed obligation of a function whose contract no longer matches the code (a lemma use, ghost statement or
		// assertion of the contract names something that is gone, or its site is never reached: hypotheses were lost) is
		// not reliable: a renamed local is enough to produce it. It counts as a violation only with a failing input
		// replayed on the real code; otherwise it is reported as undecided.
		if !found && len(obs) > 0 && staleFns[obs[0].Func] {
			why := "the contract of " + obs[0].Func + " no longer matches the code (hypotheses were lost)"
			if ab := abstractedIn[obs[0].Func]; len(ab) > 0 {
				why = obs[0].Func + " calls " + strings.Join(ab, ", ") + ", for which there is no contract (results arbitrary)"
			} else if bl := bareLoopsIn[obs[0].Func]; len(bl) > 0 {
				why = "in " + obs[0].Func + " the " + strings.Join(bl, ", ") + " (everything it assigns is unknown behind it)"
			}
			oc.undecided = append(oc.undecided, fmt.Sprintf("obligation %s failed, but %s and the witness family has no failing input: not reported as a violation", id, why))
			continue
		}
		writeReplay(rp, prop, id, obs, found, wit)
		line := fmt.Sprintf("VIOLATION property=%s replay=%s", prop, rp)
		if !found {
			line += " no-failing-input-found"
		}
		fmt.Println(line)
		oc.violations = append(oc.violations, id)
	}
	// The proof could not be attempted for part of the code (construct outside the subset, contract that no longer
	// matches the code): nothing is claimed, but a failing input found on the real code is still a violation.
	if len(oc.undecided) > 0 && len(oc.violations) == 0 {
		if found, wit := e.findFailingInput(prop, "undecided", nil, *tier, seed); found {
			rp := filepath.Join(replayDir, fmt.Sprintf("%s_undecided.json", prop))
			o := &Obligation{ID: "undecided", GoalText: "proof not attempted: " + strings.Join(oc.undecided, "; "), Status: "undecided", Output: strings.Join(oc.undecided, "\n")}
			writeReplay(rp, prop, "undecided (contracts do not match the code); failing input found by the witness family", []*Obligation{o}, true, wit)
			fmt.Printf("VIOLATION property=%s replay=%s\n", prop, rp)
			oc.violations = append(oc.violations, "undecided+failing-input")
		}
	}
	// Beside the proof: the property's witness family is run against the real code even when every obligation was
	// discharged (a bounded exploration, labelled as such in the evidence, never counted as proved). It is the net under
	// gaps in the contracts themselves - a clause of the property that no postcondition states, an assumption that a
	// change makes false - which no obligation can reveal. Families that only compute (policy, listing, text, table,
	// configuration) and the scripted, timing-free parts of the profiler family run in both tiers; what talks to the kernel
	// (loader) or depends on when a process is killed (profiler crash points) only in the thorough tier.
	familyRan, familyNote := false, ""
	if len(oc.violations) == 0 {
		hn := propHarness[prop]
		if hn != "" && (detHarness[hn] || detHarness[propHarness2[prop]] || *tier == "thorough") {
			familyRan = true
			if *tier == "quick" && len(oc.undecided) == 0 {
				familyMode = "beside"
			}
			if found, wit := e.findFailingInput(prop, "family", nil, *tier, seed); found {
				rp := filepath.Join(replayDir, fmt.Sprintf("%s_family.json", prop))
				o := &Obligation{ID: "witness-family", GoalText: "every obligation generated on this tree was discharged or undecided; the witness family of the property found a failing input on the real code", Status: "failed"}
				writeReplay(rp, prop, "witness family: failing input on the real code although no obligation failed (a gap in the contracts)", []*Obligation{o}, true, wit)
				fmt.Printf("VIOLATION property=%s replay=%s\n", prop, rp)
				oc.violations = append(oc.violations, "family+failing-input")
				familyNote = "failing input found"
			} else {
				familyNote = "no disagreement"
			}
		}
	}
	for _, u := range oc.undecided {
		fmt.Printf("UNDECIDED property=%s reason=%s\n", prop, u)
	}

	// evidence
	var samples []map[string]string
	for i, o := range all {
		if o.ExpectSat {
			continue
		}
		if len(samples) < 6 && (i%(len(all)/6+1) == 0 || o.Status != "discharged") {
			samples = append(samples, map[string]string{"obligation": o.ID, "goal": o.GoalText, "status": o.Status, "backend": o.Backend, "path": o.Path})
		}
	}
	trusted := e.trustedBase(prop, keys)
	bounded := []string{}
	ev := map[string]interface{}{
		"property_id": prop,
		"tier":        *tier,
		"seed":        seed,
		"level":       "proof",
		"coverage": map[string]interface{}{
			"obligations":              nObl,
			"discharged":               nDis,
			"known_finding_obligations": nKnown,
			"checker_cmd":              fmt.Sprintf("/verif/bin/govc check %s --tier %s", prop, *tier),
			"trusted_base":             trusted,
			"functions_under_contract": fnEv,
			"by_backend":               sv.ByBackend,
			"bounded":                  bounded,
			"samples":                  samples,
			"vacuity":                  map[string]int{"cover_queries": nCover, "satisfiable": nCovered},
			"solver_timeout_s":         timeout,
			"proof_hints":              map[string]int{"tried": hintsTried, "not_proved_hence_not_assumed": hintsFailed},
			"notes":                    append(e.Notes, gnotes...),
			"witness_family":           map[string]interface{}{"harness": propHarness[prop], "second_harness": propHarness2[prop], "ran_beside_the_proof": familyRan, "outcome": familyNote, "families_without_result": familyErrors, "what": "bounded exploration of the real code (in-package test injected by a build overlay: enumerated and seeded random inputs, histories, scenarios; see /verif/replay); not part of the proof and not counted in obligations/discharged"},
			"explanation":              "obligations generated by govc from the typed AST of /repo on this run (contracts: //@ files under build tag verif), discharged by the SMT portfolio; 'discharged' counts obligations proved unsat-of-negation; obligations that fail only at a recorded known finding are counted under known_finding_obligations",
		},
		"assumptions":    assumptions,
		"wall_s":         time.Since(start).Seconds(),
		"violations":     len(oc.violations),
		"undecided":      len(oc.undecided),
		"known_findings": oc.known,
	}
	writeEvidence(verif, prop, ev)
	fmt.Printf("%s tier=%s obligations=%d discharged=%d known=%d violations=%d undecided=%d wall=%.1fs\n", prop, *tier, nObl, nDis, len(oc.known), len(oc.violations), len(oc.undecided), time.Since(start).Seconds())
	if len(oc.violations) > 0 {
		return 1
	}
	if len(oc.undecided) > 0 {
		// Part of the proof could not be attempted on this tree (the UNDECIDED lines above and evidence.undecided say
		// which part); every obligation that could be generated was discharged and the witness family found no failing
		// input on the real code. The interface knows two outcomes: "held on everything explored" (exit 0) and a
		// violation (exit 1). This is the first: nothing explored failed. It is not a proof, and the output says so.
		fmt.Printf("NOTE property=%s proof not attempted for %d item(s) (see UNDECIDED lines); everything that was explored held: obligations generated and discharged %d/%d, witness family without failing input\n", prop, len(oc.undecided), nDis, nObl)
		return 0
	}
	return 0
}

func loadExpected(verif string) map[string]int {
	data, err := os.ReadFile(filepath.Join(verif, "expected_obligations.json"))
	if err != nil {
		return nil
	}
	m := map[string]int{}
	json.Unmarshal(data, &m)
	return m
}

func writeEvidence(verif, prop string, ev map[string]interface{}) {
	os.MkdirAll(filepath.Join(outBase(verif), "evidence"), 0o755)
	data, _ := json.MarshalIndent(ev, "", " ")
	os.WriteFile(filepath.Join(outBase(verif), "evidence", prop+".json"), data, 0o644)
}

func writeEvidenceUndecided(verif, prop, tier string, seed int, start time.Time, reason string) {
	writeEvidence(verif, prop, map[string]interface{}{
		"property_id": prop, "tier": tier, "seed": seed, "level": "other",
		"coverage":    map[string]interface{}{"explanation": "UNDECIDED: " + reason},
		"wall_s":      time.Since(start).Seconds(), "violations": 0, "undecided": 1,
	})
}

func writeReplay(path, prop, id string, obs []*Obligation, found bool, witness interface{}) {
	type obRec struct {
		Path    string `json:"path"`
		Pos     string `json:"position"`
		Goal    string `json:"goal"`
		Status  string `json:"status"`
		Backend string `json:"backend"`
		Output  string `json:"solver_output"`
	}
	var recs []obRec
	for _, o := range obs {
		out := o.Output
		if len(out) > 6000 {
			out = out[:6000] + "...[truncated]"
		}
		recs = append(recs, obRec{o.Path, fmt.Sprintf("%s:%d", shortPath(o.Pos.Filename), o.Pos.Line), o.GoalText, o.Status, o.Backend, out})
	}
	rec := map[string]interface{}{
		"property": prop, "obligation": id, "failed_instances": recs,
		"failing_input_found": found, "witness": witness,
		"note": "a failed obligation is a violation of the property's proof on this tree; when failing_input_found is true the witness was replayed against the real code and reproduced the disagreement",
	}
	data, _ := json.MarshalIndent(rec, "", " ")
	os.WriteFile(path, data, 0o644)
}

func cmdSelftest(args []string) int { return runSelftest(args) }

// outBase: where evidence/ and out/ are written (GOVC_OUT redirects them: used by the self-test so that runs
// against deliberately broken trees do not overwrite the evidence of the real tree).
func outBase(verif string) string { return envOr("GOVC_OUT", verif) }
