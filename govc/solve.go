package main

import (
	"runtime"
	"regexp"
	"bytes"
	"context"
	"fmt"
	"os"
	"os/exec"
	"path/filepath"
	"strings"
	"sync"
	"time"
)

const builtinPrelude = `
(define-fun godiv ((a Int) (b Int)) Int (ite (>= a 0) (ite (> b 0) (div a b) (- (div a (- b)))) (ite (> b 0) (- (div (- a) b)) (div (- a) (- b)))))
(define-fun gomod ((a Int) (b Int)) Int (- a (* b (godiv a b))))
(declare-fun int.or (Int Int) Int)
(declare-fun int.and (Int Int) Int)
(declare-fun i2w32 (Int) (_ BitVec 32))
(declare-fun w2i32 ((_ BitVec 32)) Int)
(declare-fun i2w64 (Int) (_ BitVec 64))
(declare-fun w2i64 ((_ BitVec 64)) Int)
(assert (forall ((x Int)) (! (= (int.or x 0) x) :pattern ((int.or x 0)))))
(assert (forall ((x (_ BitVec 32))) (! (and (<= 0 (w2i32 x)) (< (w2i32 x) 4294967296)) :pattern ((w2i32 x)))))
(assert (forall ((x (_ BitVec 64))) (! (and (<= 0 (w2i64 x)) (< (w2i64 x) 18446744073709551616)) :pattern ((w2i64 x)))))
`

// PreludeOpaque: the full prelude, except that the named spec functions are declared instead of defined
// (a proof that does not unfold them holds for every definition, in particular the real one).
func (e *Engine) PreludeOpaque(opaque []string) string {
	if len(opaque) == 0 {
		return e.Prelude()
	}
	set := map[string]bool{}
	for _, o := range opaque {
		set[o] = true
	}
	var b strings.Builder
	b.WriteString("(set-option :produce-models true)\n(set-logic ALL)\n")
	conv := func(text string) {
		xs, err := parseSX(text)
		if err != nil {
			b.WriteString(text)
			return
		}
		for _, x := range xs {
			if x.IsL && len(x.List) > 3 && (x.List[0].Atom == "define-fun" || x.List[0].Atom == "define-fun-rec") && set[x.List[1].Atom] {
				var as []string
				for _, a := range x.List[2].List {
					as = append(as, a.List[1].String())
				}
				fmt.Fprintf(&b, "(declare-fun %s (%s) %s)\n", x.List[1].Atom, strings.Join(as, " "), x.List[3].String())
				continue
			}
			b.WriteString(x.String())
			b.WriteString("\n")
		}
	}
	conv(e.Spec.PreText)
	conv(e.Sorts.Decls())
	conv(builtinPrelude)
	conv(e.Spec.Text)
	return b.String()
}

// Prelude builds the common part of every query.
func (e *Engine) Prelude() string {
	var b strings.Builder
	b.WriteString("(set-option :produce-models true)\n(set-logic ALL)\n")
	b.WriteString(e.Spec.PreText)
	b.WriteString(e.Sorts.Decls())
	b.WriteString(builtinPrelude)
	b.WriteString(e.Spec.Text)
	return b.String()
}

// QFPrelude is the prelude with every quantified definition made opaque: define-funs whose
// body contains a quantifier become declare-funs, quantified asserts are dropped. Proving an
// obligation against it (with quantified subformulas abstracted to Boolean constants) is sound:
// hypotheses are only weakened.
func (e *Engine) QFPrelude() string {
	var b strings.Builder
	b.WriteString("(set-option :produce-models true)\n(set-logic ALL)\n")
	conv := func(text string) {
		xs, err := parseSX(text)
		if err != nil {
			b.WriteString(text)
			return
		}
		for _, x := range xs {
			str := x.String()
			quant := strings.Contains(str, "(forall ") || strings.Contains(str, "(exists ")
			if quant && x.IsL && len(x.List) > 0 {
				switch x.List[0].Atom {
				case "assert":
					continue
				case "define-fun", "define-fun-rec":
					var as []string
					for _, a := range x.List[2].List {
						as = append(as, a.List[1].String())
					}
					fmt.Fprintf(&b, "(declare-fun %s (%s) %s)\n", x.List[1].Atom, strings.Join(as, " "), x.List[3].String())
					continue
				}
			}
			b.WriteString(str)
			b.WriteString("\n")
		}
	}
	conv(e.Spec.PreText)
	conv(e.Sorts.Decls())
	conv(builtinPrelude)
	conv(e.Spec.Text)
	return b.String()
}

// abstractQuantifiers replaces every quantified subformula by a Boolean constant (one per distinct text).
func abstractQuantifiers(terms []string) ([]string, []string, bool) {
	names := map[string]string{}
	var decls []string
	any := false
	var walk func(x *SX) *SX
	walk = func(x *SX) *SX {
		if !x.IsL || len(x.List) == 0 {
			return x
		}
		if h := x.List[0]; !h.IsL && (h.Atom == "forall" || h.Atom == "exists") {
			key := x.String()
			n, ok := names[key]
			if !ok {
				n = fmt.Sprintf("q!abs!%d", len(names))
				names[key] = n
				decls = append(decls, fmt.Sprintf("(declare-const %s Bool)", n))
			}
			any = true
			return &SX{Atom: n}
		}
		out := &SX{IsL: true, List: make([]*SX, len(x.List))}
		for i, c := range x.List {
			out.List[i] = walk(c)
		}
		return out
	}
	res := make([]string, len(terms))
	for i, t := range terms {
		if !strings.Contains(t, "(forall ") && !strings.Contains(t, "(exists ") {
			res[i] = t
			continue
		}
		xs, err := parseSX(t)
		if err != nil || len(xs) != 1 {
			res[i] = "true"
			continue
		}
		res[i] = walk(xs[0]).String()
	}
	return res, decls, any
}

// SMTQF renders the obligation with quantifiers abstracted.
func (o *Obligation) SMTQF(prelude string) string {
	all := append(append([]string(nil), o.Hyps...), o.Goal)
	abs, decls, _ := abstractQuantifiers(all)
	var b strings.Builder
	b.WriteString("; obligation " + o.ID + " (quantifier-free abstraction)\n")
	b.WriteString(prelude)
	for _, d := range *o.Decls {
		b.WriteString(d)
		b.WriteString("\n")
	}
	for _, d := range decls {
		b.WriteString(d)
		b.WriteString("\n")
	}
	for _, h := range abs[:len(abs)-1] {
		if h == "true" {
			continue
		}
		b.WriteString("(assert ")
		b.WriteString(h)
		b.WriteString(")\n")
	}
	b.WriteString("(assert (not ")
	b.WriteString(abs[len(abs)-1])
	b.WriteString("))\n(check-sat)\n")
	return b.String()
}

// arithSimp cancels a constant that is subtracted and added again, (+ (- a n) n) and (- (+ a n) n), for an atom a:
// terms of this shape come from counting loops (i-- followed by an invariant over i+1) and cost the solvers
// far more than they should.
var arithSimpRe1 = regexp.MustCompile(`\(\+ \(- ([^\s()]+) (\d+)\) (\d+)\)`)
var arithSimpRe2 = regexp.MustCompile(`\(- \(\+ ([^\s()]+) (\d+)\) (\d+)\)`)

func arithSimp(t string) string {
	f := func(re *regexp.Regexp) {
		t = re.ReplaceAllStringFunc(t, func(m string) string {
			g := re.FindStringSubmatch(m)
			if g[2] == g[3] {
				return g[1]
			}
			return m
		})
	}
	f(arithSimpRe1)
	f(arithSimpRe2)
	return t
}

func (o *Obligation) SMT(prelude string) string {
	var b strings.Builder
	b.WriteString("; obligation " + o.ID + "\n; " + strings.ReplaceAll(o.GoalText, "\n", " ") + "\n; path " + o.Path + "\n")
	b.WriteString(prelude)
	for _, d := range *o.Decls {
		b.WriteString(d)
		b.WriteString("\n")
	}
	for _, h := range o.Hyps {
		b.WriteString("(assert ")
		b.WriteString(arithSimp(h))
		b.WriteString(")\n")
	}
	b.WriteString("(assert (not ")
	b.WriteString(arithSimp(o.Goal))
	b.WriteString("))\n(check-sat)\n(get-model)\n")
	return b.String()
}

type solverSpec struct {
	name string
	args func(file string, timeout int) []string
	// unsatOnly: the configuration drops axioms (array extensionality), so only its "unsat" is an answer
	unsatOnly bool
}

var solvers = []solverSpec{
	{"z3-new", func(f string, t int) []string { return []string{"z3-new", fmt.Sprintf("-T:%d", t), f} }, false},
	{"cvc5", func(f string, t int) []string {
		return []string{"cvc5", fmt.Sprintf("--tlimit=%d", t*1000), "--produce-models", "--strings-exp", f}
	}, false},
	{"z3", func(f string, t int) []string { return []string{"z3", fmt.Sprintf("-T:%d", t), f} }, false},
	// without the extensionality axioms of the array theory: a weaker theory, so "unsat" carries over; much more
	// stable on obligations with struct equalities over array-valued ghost fields
	{"z3-new-noext", func(f string, t int) []string {
		return []string{"z3-new", fmt.Sprintf("-T:%d", t), "smt.array.extensional=false", f}
	}, true},
}

type solveAnswer struct {
	solver  string
	verdict string // unsat | sat | unknown | timeout | error
	output  string
	secs    float64
}

func runSolver(ctx context.Context, s solverSpec, file string, timeout int) solveAnswer {
	start := time.Now()
	args := s.args(file, timeout)
	cctx, cancel := context.WithTimeout(ctx, time.Duration(timeout+2)*time.Second)
	defer cancel()
	cmd := exec.CommandContext(cctx, args[0], args[1:]...)
	var out bytes.Buffer
	cmd.Stdout = &out
	cmd.Stderr = &out
	cmd.Run()
	secs := time.Since(start).Seconds()
	text := out.String()
	first := ""
	for _, l := range strings.Split(text, "\n") {
		l = strings.TrimSpace(l)
		if l == "" || strings.HasPrefix(l, "WARNING") {
			continue // solver warnings (e.g. an unusable pattern) precede the verdict
		}
		first = l
		break
	}
	v := "unknown"
	switch {
	case first == "unsat":
		v = "unsat"
	case first == "sat":
		v = "sat"
	case first == "unknown":
		v = "unknown"
	case strings.Contains(first, "timeout") || cctx.Err() != nil:
		v = "timeout"
	case strings.HasPrefix(first, "(error") || strings.Contains(text, "(error") || strings.Contains(first, "rror"):
		v = "error"
	}
	if len(text) > 20000 {
		text = text[:20000] + "\n...[truncated]"
	}
	if s.unsatOnly && v == "sat" {
		v = "unknown"
	}
	return solveAnswer{s.name, v, text, secs}
}

// Solver runs obligations through the portfolio.
type Solver struct {
	Dir       string
	Timeout   int  // seconds per obligation
	Agreement bool // thorough: every back end that answers must agree
	Par       int
	Prelude   string
	QFPrelude string
	Eng       *Engine
	mu        sync.Mutex
	ByBackend map[string]*backendStat
	Seed      int
	noRetry   bool // set on the solver that runs the second attempts
}

type backendStat struct {
	Count   int     `json:"count"`
	Seconds float64 `json:"seconds"`
}

func (s *Solver) note(name string, secs float64) {
	s.mu.Lock()
	defer s.mu.Unlock()
	if s.ByBackend == nil {
		s.ByBackend = map[string]*backendStat{}
	}
	b := s.ByBackend[name]
	if b == nil {
		b = &backendStat{}
		s.ByBackend[name] = b
	}
	b.Count++
	b.Seconds += secs
}

func (s *Solver) SolveAll(obls []*Obligation) {
	sem := make(chan struct{}, s.Par)
	var wg sync.WaitGroup
	for i, o := range obls {
		if o.Status != "" {
			if o.Backend == "constfold" {
				s.note("constfold", 0)
			}
			continue
		}
		wg.Add(1)
		go func(i int, o *Obligation) {
			defer wg.Done()
			sem <- struct{}{}
			defer func() { <-sem }()
			s.solveOne(i, o)
		}(i, o)
	}
	wg.Wait()
	s.secondChance(obls)
}

// secondChance: an obligation that failed without any back end answering `sat` (time-outs and `unknown` only) is tried
// once more with twice the time and little parallelism, after everything else is done. On a loaded or slower
// machine a proof that normally takes a second can miss the time-out; reporting that as a violation would be a false
// alarm. A genuinely failing obligation fails again (it only costs time); nothing is ever turned into a pass without an
// `unsat` answer.
func (s *Solver) secondChance(obls []*Obligation) {
	if s.noRetry {
		return
	}
	var again []int
	for i, o := range obls {
		if o.Status == "failed" && o.Model == "" && !o.ExpectSat && o.Backend != "constfold" && !strings.Contains(o.Output, ": error") {
			again = append(again, i)
		}
	}
	if len(again) == 0 || len(again) > 10 {
		return
	}
	r := &Solver{Dir: s.Dir, Timeout: s.Timeout * 2, Agreement: s.Agreement, Par: 5, Prelude: s.Prelude, QFPrelude: s.QFPrelude, Eng: s.Eng, Seed: s.Seed + 1, noRetry: true}
	sem := make(chan struct{}, r.Par)
	var wg sync.WaitGroup
	for _, i := range again {
		wg.Add(1)
		go func(i int, o *Obligation) {
			defer wg.Done()
			sem <- struct{}{}
			defer func() { <-sem }()
			prevOut, prevSecs := o.Output, o.Seconds
			o.Status, o.Backend, o.Output = "", "", ""
			r.solveOne(i, o)
			o.Seconds += prevSecs
			if o.Status == "discharged" {
				o.Backend += "+retry"
			} else {
				o.Output = prevOut + "second attempt (" + fmt.Sprint(r.Timeout) + " s): " + o.Output
			}
		}(i, obls[i])
	}
	wg.Wait()
	for name, b := range r.ByBackend {
		s.note(name+"+retry", b.Seconds)
		s.ByBackend[name+"+retry"].Count += b.Count - 1
	}
}

func safeName(id string) string {
	r := strings.NewReplacer("/", "_", " ", "_", "*", "", "(", "", ")", "", ":", "_", "#", "-", "@", "_at_", "<", "_", ">", "_")
	return r.Replace(id)
}

func (s *Solver) solveOne(i int, o *Obligation) {
	file := filepath.Join(s.Dir, fmt.Sprintf("%04d_%s.smt2", i, safeName(o.ID)))
	if len(file) > 200 {
		file = file[:200] + ".smt2"
	}
	prelude := s.Prelude
	if len(o.Opaque) > 0 && s.Eng != nil {
		prelude = s.Eng.opaquePrelude(o.Opaque)
	}
	os.WriteFile(file, []byte(o.SMT(prelude)), 0o644)
	decide := func(a solveAnswer) bool {
		o.Seconds += a.secs
		if a.verdict == "unsat" || a.verdict == "sat" {
			o.Backend = a.solver
			o.Output = a.output
			if a.verdict == "sat" {
				o.Model = a.output
			}
			if o.ExpectSat {
				if a.verdict == "sat" {
					o.Status = "covered"
				} else {
					o.Status = "vacuous"
				}
			} else {
				if a.verdict == "unsat" {
					o.Status = "discharged"
				} else {
					o.Status = "failed"
				}
			}
			s.note(a.solver, a.secs)
			return true
		}
		return false
	}
	ctx := context.Background()
	// stage 0: quantifier-free abstraction (sound: hypotheses only weakened); unsat there is a proof
	if !o.ExpectSat && s.QFPrelude != "" {
		qf := strings.TrimSuffix(file, ".smt2") + ".qf.smt2"
		os.WriteFile(qf, []byte(o.SMTQF(s.QFPrelude)), 0o644)
		t0 := 3
		if s.Timeout < t0 {
			t0 = s.Timeout
		}
		a := runSolver(ctx, solvers[0], qf, t0)
		o.Seconds += a.secs
		if a.verdict == "unsat" {
			o.Status = "discharged"
			o.Backend = a.solver + "/qf"
			s.note(o.Backend, a.secs)
			if !s.Agreement {
				return
			}
		}
	}
	// stage 1: z3-new alone, short
	t1 := 3
	if s.Timeout < t1 {
		t1 = s.Timeout
	}
	if o.ExpectSat {
		// cover queries: one solver, short; "unknown" counts as not-vacuous
		a := runSolver(ctx, solvers[0], file, t1)
		if !decide(a) {
			o.Status = "covered"
			if a.verdict == "error" {
				o.Status = "vacuous" // a broken query must not pass the vacuity guard
			}
			o.Backend = a.solver + ":" + a.verdict
			o.Output = a.output
		}
		return
	}
	// stage 1: z3-new with and without array extensionality and cvc5, side by side, short
	var a solveAnswer
	{
		c1, cancel1 := context.WithCancel(ctx)
		ch1 := make(chan solveAnswer, 3)
		stage1 := []solverSpec{solvers[0], solvers[3], solvers[1]}
		for _, sv := range stage1 {
			go func(sv solverSpec) { ch1 <- runSolver(c1, sv, file, t1) }(sv)
		}
		var x solveAnswer
		for i := range stage1 {
			y := <-ch1
			if i == 0 || y.verdict == "unsat" || y.verdict == "sat" || (y.solver == solvers[0].name && x.verdict != "unsat" && x.verdict != "sat") {
				x = y
			}
			if x.verdict == "unsat" || x.verdict == "sat" {
				break
			}
		}
		cancel1()
		a = x
	}
	if decide(a) && !s.Agreement {
		return
	}
	first := a
	// stage 2: all three in parallel with the full timeout
	cctx, cancel := context.WithCancel(ctx)
	defer cancel()
	ch := make(chan solveAnswer, len(solvers))
	for _, sv := range solvers {
		go func(sv solverSpec) { ch <- runSolver(cctx, sv, file, s.Timeout) }(sv)
	}
	var answers []solveAnswer
	decided := o.Status != ""
	started := time.Now()
	var grace <-chan time.Time
	for range solvers {
		var a solveAnswer
		select {
		case a = <-ch:
		case <-grace:
			// agreement mode: the other back ends had three times as long as the first one that answered
			// (at least 15 s); those still running count as "no answer", like a timeout
			cancel()
			a = <-ch
		}
		answers = append(answers, a)
		if s.Agreement && grace == nil && (a.verdict == "unsat" || a.verdict == "sat") {
			d := 2 * time.Since(started)
			if d < 15*time.Second {
				d = 15 * time.Second
			}
			grace = time.After(d)
		}
		if s.Agreement {
			if a.verdict == "sat" && !o.ExpectSat {
				o.Status = "failed"
				o.Backend = a.solver
				o.Model = a.output
				o.Output = a.output
				decided = true
			} else if a.verdict == "unsat" && !decided {
				decide(a)
				decided = true
			}
			continue
		}
		if !decided && decide(a) {
			decided = true
			cancel()
			break
		}
	}
	if !decided {
		o.Status = "failed"
		o.Backend = "none"
		var b strings.Builder
		fmt.Fprintf(&b, "%s: %s (%.1fs)\n", first.solver, first.verdict, first.secs)
		for _, a := range answers {
			fmt.Fprintf(&b, "%s: %s (%.1fs) %s\n", a.solver, a.verdict, a.secs, firstLines(a.output, 3))
		}
		o.Output = b.String()
	}
}

func firstLines(s string, n int) string {
	ls := strings.Split(s, "\n")
	if len(ls) > n {
		ls = ls[:n]
	}
	return strings.Join(ls, " | ")
}

var opaqueCache = map[string]string{}
var opaqueMu sync.Mutex

func (e *Engine) opaquePrelude(opaque []string) string {
	key := strings.Join(opaque, ",")
	opaqueMu.Lock()
	defer opaqueMu.Unlock()
	if p, ok := opaqueCache[key]; ok {
		return p
	}
	p := e.PreludeOpaque(opaque)
	opaqueCache[key] = p
	return p
}

// solverPar: obligations in flight. Each runs two solver processes in stage 1 and four in stage 2, so half the
// cores keeps the machine from being oversubscribed (timeouts are wall-clock).
func solverPar() int {
	n := runtime.NumCPU() / 2
	if n < 1 {
		n = 1
	}
	return n
}
