package main

import (
	"go/ast"
	"encoding/json"
	"flag"
	"fmt"
	"os"
	"path/filepath"
	"sort"
	"strings"
)

func usage() {
	fmt.Fprintln(os.Stderr, `usage:
  govc check <PROPERTY> [--tier quick|thorough]
  govc func <key>...          verify the named functions, print obligations (debugging)
  govc list                   list functions under contract
  govc selftest               run the must-fail corpus`)
	os.Exit(2)
}

func envOr(k, d string) string {
	if v := os.Getenv(k); v != "" {
		return v
	}
	return d
}

func newEngine(goos, goarch string) (*Engine, error) {
	repo := envOr("GOVC_REPO", "/repo")
	verif := envOr("GOVC_VERIF", "/verif")
	e, err := LoadEngine(repo, verif, goos, goarch, []string{"verif"})
	if err != nil {
		return nil, err
	}
	if err := e.LoadContracts(); err != nil {
		return nil, err
	}
	e.registerIfaceImpls()
	e.forceSorts()
	return e, nil
}

func main() {
	if len(os.Args) < 2 {
		usage()
	}
	switch os.Args[1] {
	case "func":
		cmdFunc(os.Args[2:])
	case "list":
		e, err := newEngine("", "")
		if err != nil {
			fmt.Fprintln(os.Stderr, err)
			os.Exit(3)
		}
		for _, k := range sortedKeys(e.Contracts.Funcs) {
			f := e.Contracts.Funcs[k]
			fmt.Printf("%-60s extern=%v props=%v\n", k, f.Extern, f.Props)
		}
	case "check":
		os.Exit(cmdCheck(os.Args[2:]))
	case "replay":
		os.Exit(cmdReplay(os.Args[2:]))
	case "family":
		e, err := newEngine("", "")
		if err != nil {
			fmt.Fprintln(os.Stderr, err)
			os.Exit(3)
		}
		ok, w := e.findFailingInput(os.Args[2], "", nil, "quick", 0)
		fmt.Println(ok)
		for _, d := range familyCache[propHarness[os.Args[2]]] {
			b, _ := json.Marshal(d)
			fmt.Println(string(b))
		}
		_ = w
	case "loopkeys":
		// prints, for every contract loop, the header text of the loop it is bound to (used to add `match` keys)
		e, err := newEngine("", "")
		if err != nil {
			fmt.Fprintln(os.Stderr, err)
			os.Exit(3)
		}
		for _, k := range sortedKeys(e.Contracts.Funcs) {
			f := e.Contracts.Funcs[k]
			if f.Extern || f.IsLemma || len(f.Loops) == 0 {
				continue
			}
			fi := e.Funcs[k]
			if fi == nil || fi.Decl == nil || fi.Decl.Body == nil {
				continue
			}
			n := 0
			ast.Inspect(fi.Decl.Body, func(nd ast.Node) bool {
				switch s := nd.(type) {
				case *ast.ForStmt, *ast.RangeStmt:
					n++
					if _, ok := f.Loops[n]; ok {
						fmt.Printf("%s\t%d\t%s\n", k, n, loopHeader(e, s.(ast.Stmt)))
					}
				case *ast.FuncLit:
					return false
				}
				return true
			})
		}
	case "selftest":
		os.Exit(cmdSelftest(os.Args[2:]))
	default:
		usage()
	}
}

func cmdFunc(args []string) {
	fs := flag.NewFlagSet("func", flag.ExitOnError)
	timeout := fs.Int("timeout", 10, "per-obligation timeout (s)")
	keep := fs.String("keep", "", "directory to keep .smt2 files")
	verbose := fs.Bool("v", false, "print every obligation")
	fs.Parse(args)
	e, err := newEngine("", "")
	if err != nil {
		fmt.Fprintln(os.Stderr, err)
		os.Exit(3)
	}
	dir := *keep
	if dir == "" {
		dir, _ = os.MkdirTemp("", "govc")
		defer os.RemoveAll(dir)
	} else {
		os.MkdirAll(dir, 0o755)
	}
	HintSolver = func(obls []*Obligation) {
		(&Solver{Dir: dir, Timeout: *timeout, Par: solverPar(), Prelude: e.Prelude(), QFPrelude: e.QFPrelude(), Eng: e, noRetry: true}).SolveAll(obls)
	}
	for _, key := range fs.Args() {
		if e.Contracts.Funcs[key] == nil {
			fmt.Printf("no contract for %s\n", key)
			continue
		}
		res := e.VerifyFunc(key)
		sv := &Solver{Dir: dir, Timeout: *timeout, Par: solverPar(), Prelude: e.Prelude(), QFPrelude: e.QFPrelude(), Eng: e}
		sv.SolveAll(res.Obligations)
		fmt.Printf("== %s: %d obligations, %d unsupported, hints %d (failed %d)\n", key, len(res.Obligations), len(res.Unsupported), res.HintsTried, res.HintsFailed)
		for _, u := range res.Unsupported {
			fmt.Printf("   UNSUPPORTED %s\n", u)
		}
		for _, h := range res.HintFailIDs {
			fmt.Printf("   hint not proved: %s\n", h)
		}
		cnt := map[string]int{}
		for _, o := range res.Obligations {
			cnt[o.Status]++
			if *verbose || o.Status == "failed" || o.Status == "vacuous" {
				fmt.Printf("   %-10s %-70s %-8s %.2fs  [%s:%d] %s\n", o.Status, o.ID, o.Backend, o.Seconds, shortPath(o.Pos.Filename), o.Pos.Line, o.GoalText)
				if o.Status == "failed" {
					fmt.Printf("      path: %s\n", o.Path)
					if *verbose {
						fmt.Printf("      %s\n", firstLines(o.Output, 40))
					}
				}
			}
		}
		var ks []string
		for k := range cnt {
			ks = append(ks, k)
		}
		sort.Strings(ks)
		for _, k := range ks {
			fmt.Printf("   %s=%d", k, cnt[k])
		}
		fmt.Println()
	}
}

func relToVerif(p string) string {
	if r, err := filepath.Rel("/verif", p); err == nil && !strings.HasPrefix(r, "..") {
		return r
	}
	return p
}
