package main

import (
	"runtime"
	"os"
	"sort"
	"fmt"
	"go/ast"
	"go/constant"
	"go/token"
	"go/types"
	"regexp"
	"strconv"
	"strings"
)

var intLitRe = regexp.MustCompile(`[ (]\d+[ )]`)

func mustConst(s string) constant.Value { return constant.MakeFromLiteral(s, token.INT, 0) }

type globalDef struct {
	term  Term
	facts []string
	decls []string
}

// FuncResult is what verifying one function produced.
type FuncResult struct {
	Key         string
	File        string
	Obligations []*Obligation
	Unsupported []string
	Decls       []string
	HintsTried  int
	HintsFailed int
	HintFailIDs []string
	Abstracted  []string // library functions called without a contract (results arbitrary)
	BareLoops   []string // loops without an invariant in the contract
}

// global returns the value of a package-level variable.
func (env *Env) global(o *types.Var) Val {
	c := env.c
	if t, ok := env.st.vars[o]; ok {
		return Val{T: t, GoT: o.Type()}
	}
	sort := env.ss().SortOf(o.Type())
	name := "g." + pkgShort(o.Pkg()) + "." + o.Name()
	gs := c.eng.Contracts.Globals[pkgShort(o.Pkg())+"."+o.Name()]
	mutable := c.eng.isMutableGlobal(o)
	if gs != nil && gs.Kind == "havoc" {
		mutable = true
	}
	if mutable {
		// value unknown at function entry; stable until assigned
		t := Term{name + "@entry", sort}
		c.declOnce(fmt.Sprintf("(declare-const %s %s)", t.S, sort))
		env.st.vars[o] = t
		if c.entry != nil {
			if _, ok := c.entry.vars[o]; !ok {
				c.entry.vars[o] = t
			}
		}
		env.st.Assume(c.typeFacts(t, o.Type()))
		return Val{T: t, GoT: o.Type()}
	}
	t := Term{name, sort}
	c.declOnce(fmt.Sprintf("(declare-const %s %s)", name, sort))
	key := "gfacts:" + name
	if _, done := env.st.spec[key]; !done {
		env.st.spec[key] = Val{}
		for _, f := range c.globalFacts(o, t) {
			if env.globalInit {
				env.st.Assume(f) // collected as part of the enclosing global's facts
			} else {
				env.st.gfacts = append(env.st.gfacts, f)
			}
		}
	}
	return Val{T: t, GoT: o.Type()}
}

// isMutableGlobal: a package-level variable assigned anywhere outside its declaration
// (in non-test files of the loaded packages), or whose address is taken.
func (e *Engine) isMutableGlobal(o *types.Var) bool {
	if e.writtenGlobals == nil {
		e.writtenGlobals = map[types.Object][]string{}
		for _, p := range e.Pkgs {
			for _, f := range p.Syntax {
				curFunc := ""
				ast.Inspect(f, func(n ast.Node) bool {
					if fd, ok := n.(*ast.FuncDecl); ok {
						curFunc = fd.Name.Name
					}
					mark := func(ex ast.Expr, how string) {
						how = how + " in " + curFunc
						id := rootIdent(ex)
						if id == nil {
							return
						}
						obj := p.TypesInfo.ObjectOf(id)
						if se, ok := unparen(ex).(*ast.SelectorExpr); ok {
							if pid, ok := se.X.(*ast.Ident); ok {
								if _, isPkg := p.TypesInfo.ObjectOf(pid).(*types.PkgName); isPkg {
									obj = p.TypesInfo.ObjectOf(se.Sel)
								}
							}
						}
						if v, ok := obj.(*types.Var); ok && v.Pkg() != nil && v.Parent() == v.Pkg().Scope() {
							pos := e.Fset.Position(ex.Pos())
							e.writtenGlobals[v] = append(e.writtenGlobals[v], fmt.Sprintf("%s:%d %s", shortPath(pos.Filename), pos.Line, how))
						}
					}
					switch x := n.(type) {
					case *ast.AssignStmt:
						if x.Tok != token.DEFINE {
							for _, l := range x.Lhs {
								mark(l, "assigned")
							}
						}
					case *ast.IncDecStmt:
						mark(x.X, "assigned")
					case *ast.UnaryExpr:
						if x.Op == token.AND {
							if _, isLit := x.X.(*ast.CompositeLit); !isLit {
								mark(x.X, "address taken")
							}
						}
					case *ast.CallExpr:
						if id, ok := unparen(x.Fun).(*ast.Ident); ok && (id.Name == "delete" || id.Name == "copy") && len(x.Args) > 0 {
							mark(x.Args[0], "mutated by "+id.Name)
						}
					}
					return true
				})
			}
		}
	}
	return len(e.writtenGlobals[o]) > 0
}

// globalFacts evaluates the initializer of an immutable global into defining facts.
func (c *FnCtx) globalFacts(o *types.Var, t Term) []string {
	if gd, ok := c.eng.globalCache[o]; ok {
		for _, d := range gd.decls {
			c.declOnce(d)
		}
		return gd.facts
	}
	gd := &globalDef{term: t}
	c.eng.globalCache[o] = gd
	// find initializer
	var init ast.Expr
	var info *types.Info
	for _, p := range c.eng.Pkgs {
		if p.Types != o.Pkg() {
			continue
		}
		info = p.TypesInfo
		for _, f := range p.Syntax {
			for _, d := range f.Decls {
				g, ok := d.(*ast.GenDecl)
				if !ok || g.Tok != token.VAR {
					continue
				}
				for _, sp := range g.Specs {
					vs := sp.(*ast.ValueSpec)
					for i, n := range vs.Names {
						if p.TypesInfo.Defs[n] == o && i < len(vs.Values) && len(vs.Values) == len(vs.Names) {
							init = vs.Values[i]
						}
					}
				}
			}
		}
	}
	if init == nil {
		return nil
	}
	// big literals are left unconstrained (ground checks handle the tables)
	if cl, ok := init.(*ast.CompositeLit); ok && len(cl.Elts) > 64 {
		return nil
	}
	st := NewState()
	nd := len(c.decls)
	env := &Env{c: c, st: st, code: true, nosafe: true, infoOverride: info, globalInit: true}
	func() {
		defer func() {
			if r := recover(); r != nil {
				if _, ok := r.(unsupportedErr); ok {
					st.hyps = nil
					return
				}
				panic(r)
			}
		}()
		v := env.eval(init)
		v = env.convertVal(v, env.typeOf(init), o.Type(), init.Pos())
		vt := env.term(v, init.Pos())
		st.Assume(eq(t.S, vt.S))
	}()
	gd.facts = st.hyps
	// true instances of the int->uint32 bridge for the integer literals of the initializer
	seen := map[string]bool{}
	for _, h := range st.hyps {
		for _, lit := range intLitRe.FindAllString(h, -1) {
			lit = strings.TrimSpace(strings.Trim(lit, "() "))
			if seen[lit] || len(lit) > 10 {
				continue
			}
			seen[lit] = true
			if n, err := strconv.ParseUint(lit, 10, 64); err == nil && n <= 0xffffffff && n > 1 {
				gd.facts = append(gd.facts, fmt.Sprintf("(and (= (i2w32 %d) #x%08x) (= (w2i32 #x%08x) %d))", n, n, n, n))
			}
		}
	}
	gd.decls = append([]string(nil), c.decls[nd:]...)
	return gd.facts
}

// VerifyLemma proves a lemma: requires |- ensures, parameters arbitrary.
func (e *Engine) VerifyLemma(key string) *FuncResult {
	spec := e.Contracts.Funcs[key]
	res := &FuncResult{Key: key, File: shortPath(spec.File)}
	pk := e.PkgByName[spec.Pkg]
	// a pseudo function context (no body)
	fi := &FuncInfo{Key: key, Pkg: pk}
	c := &FnCtx{eng: e, fi: fi, spec: spec, info: pk.TypesInfo, loopOrd: map[ast.Stmt]int{}, callOrd: map[*ast.CallExpr]string{},
		siteOrd: map[string]int{}, specNames: map[string]types.Object{}}
	st := NewState()
	c.entry = st
	names := map[string]Val{}
	if spec.Trusted {
		// an axiom of the meta-theory: listed as an assumption, not proved here
		return res
	}
	func() {
		defer func() {
			if r := recover(); r != nil {
				if u, ok := r.(unsupportedErr); ok {
					c.unsupported(token.NoPos, "%s", u.msg)
					return
				}
				panic(r)
			}
		}()
		if spec.Decl.Type.Params != nil {
			for _, f := range spec.Decl.Type.Params.List {
				pt, err := e.evalType(pk, exprString2(f.Type))
				if err != nil {
					if ts := exprString2(f.Type); e.Spec.Sorts[ts] {
						if a, ok := e.Spec.Alias[ts]; ok {
							ts = a
						}
						for _, n := range f.Names {
							names[n.Name] = Val{T: c.fresh(n.Name, ts)}
						}
						continue
					}
					panic(unsupportedErr{fmt.Sprintf("lemma %s: parameter type %s: %v", key, exprString2(f.Type), err)})
				}
				for _, n := range f.Names {
					t := c.fresh(n.Name, e.Sorts.SortOf(pt))
					st.Assume(c.typeFacts(t, pt))
					names[n.Name] = Val{T: t, GoT: pt}
				}
			}
		}
		// ghost globals of the lemma's package: arbitrary values
		for name, gs := range e.Contracts.Globals {
			if strings.HasPrefix(gs.Kind, "ghost:") && strings.HasPrefix(name, spec.Pkg+".") {
				short := name[strings.Index(name, ".")+1:]
				st.spec["ghost."+short] = Val{T: c.fresh("ghost."+short, strings.TrimPrefix(gs.Kind, "ghost:"))}
			}
		}
		env := &Env{c: c, st: st, names: names, pkg: pk}
		for _, ax := range e.Contracts.Axioms {
			aenv := &Env{c: c, st: st, names: map[string]Val{}, pkg: e.PkgByName[ax.Pkg]}
			st.Assume(aenv.evalSpecBool(ax.Clause))
		}
		for _, r := range spec.Requires {
			st.Assume(env.evalSpecBool(r))
		}
		c.oblige(st, "cover", "requires", "false", spec.Props, "lemma precondition is satisfiable")
		c.obls[len(c.obls)-1].ExpectSat = true
		// instances of other lemmas, and of the lemma itself at a smaller measure (induction): each instance is
		// justified by obligations (its preconditions; for a recursive instance also 0 <= measure' < measure)
		// before its conclusion is assumed
		for ui, u := range spec.Uses {
			c.lemmaUse(st, env, names, key, ui, u)
		}
		for i, en := range spec.Ensures {
			lbl := en.Label
			if lbl == "" {
				lbl = fmt.Sprintf("e%d", i+1)
			}
			props := en.Props
			if props == nil {
				props = spec.Props
			}
			c.oblige(st, "lemma", lbl, env.evalSpecBool(en), props, en.Expr)
		}
	}()
	res.Obligations = c.obls
	res.Unsupported = c.unsupp
	res.Decls = c.decls
	return res
}

// HintSolver is set by the commands: it discharges hint obligations between the two passes.
var HintSolver func(obls []*Obligation)

// VerifyFunc generates all obligations of one function under contract. Functions with proof hints are
// executed twice: the first pass generates the hints (never assumed) and solves them, the second pass
// assumes exactly the hint instances that were proved.
func (e *Engine) VerifyFunc(key string) *FuncResult {
	spec := e.Contracts.Funcs[key]
	if spec != nil && spec.IsLemma {
		return e.VerifyLemma(key)
	}
	hasHints := false
	if spec != nil {
		for _, a := range spec.Asserts {
			if a.Hint {
				hasHints = true
			}
		}
	}
	if !hasHints || HintSolver == nil {
		return e.verifyFuncPass(key, 0, nil)
	}
	r1 := e.verifyFuncPass(key, 1, nil)
	var hints []*Obligation
	for _, o := range r1.Obligations {
		if o.Kind == "hint" {
			hints = append(hints, o)
		}
	}
	HintSolver(hints)
	proved := map[string]bool{}
	failed := 0
	for _, o := range hints {
		if o.Status == "discharged" {
			proved[o.HintKey] = true
		} else {
			failed++
		}
	}
	r2 := e.verifyFuncPass(key, 2, proved)
	r2.HintsTried = len(hints)
	r2.HintsFailed = failed
	for _, o := range hints {
		if o.Status != "discharged" {
			r2.HintFailIDs = append(r2.HintFailIDs, o.ID+" ["+o.Path+"] "+o.Backend)
		}
	}
	return r2
}

// verifyFuncPass never lets an internal error of the verifier take a whole check down: a function on which the
// generator fails (a Go runtime error outside the per-statement net of execStmt) is reported as outside the supported
// subset - UNDECIDED, the witness family is searched - like any other construct it does not model.
func (e *Engine) verifyFuncPass(key string, pass int, proved map[string]bool) (res *FuncResult) {
	defer func() {
		if r := recover(); r != nil {
			if _, ok := r.(runtime.Error); !ok {
				panic(r)
			}
			res = &FuncResult{Key: key, Unsupported: []string{fmt.Sprintf("%s: internal error of the verifier while generating obligations (%v)", key, r)}}
		}
	}()
	return e.verifyFuncPass0(key, pass, proved)
}

func (e *Engine) verifyFuncPass0(key string, pass int, proved map[string]bool) *FuncResult {
	spec := e.Contracts.Funcs[key]
	fi := e.Funcs[key]
	res := &FuncResult{Key: key}
	if spec != nil && spec.Trusted && !spec.Extern {
		// contract assumed, body not verified (listed in evidence)
		if fi != nil {
			res.File = shortPath(e.Fset.Position(fi.Decl.Pos()).Filename)
		}
		return res
	}
	if fi == nil {
		res.Unsupported = append(res.Unsupported, "function "+key+" not found in /repo (contract without code)")
		return res
	}
	res.File = shortPath(e.Fset.Position(fi.Decl.Pos()).Filename)
	c := &FnCtx{eng: e, fi: fi, spec: spec, info: fi.Pkg.TypesInfo, loopOrd: map[ast.Stmt]int{}, callOrd: map[*ast.CallExpr]string{},
		siteOrd: map[string]int{}, specNames: map[string]types.Object{}, safety: !spec.NoSafety, hintPass: pass, provedHints: proved}
	// loop ordinals: contract loops with a `match` text are bound to the first free loop whose header contains it;
	// the other loops are numbered in source order with the numbers that are left
	var loops []ast.Stmt
	ast.Inspect(fi.Decl.Body, func(nd ast.Node) bool {
		switch s := nd.(type) {
		case *ast.ForStmt:
			loops = append(loops, s)
		case *ast.RangeStmt:
			loops = append(loops, s)
		case *ast.FuncLit:
			return false
		}
		return true
	})
	usedN := map[int]bool{}
	if spec != nil {
		var ns []int
		for n, ls := range spec.Loops {
			if ls.Match != "" {
				ns = append(ns, n)
			}
		}
		sort.Ints(ns)
		for _, n := range ns {
			for _, s := range loops {
				if _, taken := c.loopOrd[s]; taken {
					continue
				}
				if strings.Contains(loopHeader(e, s), spec.Loops[n].Match) {
					c.loopOrd[s] = n
					usedN[n] = true
					break
				}
			}
			// no header contains the text (the header was edited): the number stays free and is handed out
			// in source order below, as for loops without a match key
		}
	}
	next := 0
	for _, s := range loops {
		if _, taken := c.loopOrd[s]; taken {
			continue
		}
		next++
		for usedN[next] {
			next++
		}
		c.loopOrd[s] = next
	}
	// ordinals of assignments to plain identifiers, per name, in source order ("after assign x#k")
	c.assignOrd = map[ast.Stmt]string{}
	cnt := map[string]int{}
	ast.Inspect(fi.Decl.Body, func(nd ast.Node) bool {
		switch s := nd.(type) {
		case *ast.AssignStmt:
			if len(s.Lhs) >= 1 {
				if id, ok := s.Lhs[0].(*ast.Ident); ok && id.Name != "_" {
					cnt[id.Name]++
					c.assignOrd[s] = fmt.Sprintf("%s#%d", id.Name, cnt[id.Name])
				}
			}
		case *ast.FuncLit:
			return false
		}
		return true
	})
	bound := map[int]bool{}
	for _, n := range c.loopOrd {
		bound[n] = true
	}
	for ln, ls := range spec.Loops {
		if !bound[ln] {
			if ls.Match != "" {
				c.unsupported(token.NoPos, "contract loop %d of %s: no loop header contains %q and no loop is left for it", ln, key, ls.Match)
			} else {
				c.unsupported(token.NoPos, "contract names loop %d but %s has %d loops", ln, key, len(loops))
			}
		}
	}
	st := NewState()
	c.entry = st
	sig := fi.Obj.Type().(*types.Signature)
	recvName, pnames, _, _ := specParamNames(spec.Decl)
	intro := func(o types.Object, hint string) {
		sort := e.Sorts.SortOf(o.Type())
		t := c.fresh(hint+"0", sort)
		st.vars[o] = t
		st.Assume(c.typeFacts(t, o.Type()))
	}
	if sig.Recv() != nil {
		ro := c.recvObj()
		if ro != nil {
			c.recv = ro
			intro(ro, ro.Name())
			if recvName != "" {
				c.specNames[recvName] = ro
			}
		}
	}
	pi := 0
	if fi.Decl.Type.Params != nil {
		for _, f := range fi.Decl.Type.Params.List {
			for _, nm := range f.Names {
				o := c.info.Defs[nm]
				if o != nil {
					c.params = append(c.params, o)
					intro(o, nm.Name)
					if pi < len(pnames) && pnames[pi] != "_" {
						c.specNames[pnames[pi]] = o
					}
				}
				pi++
			}
			if len(f.Names) == 0 {
				pi++
			}
		}
	}
	if fi.Decl.Type.Results != nil {
		for _, f := range fi.Decl.Type.Results.List {
			for _, nm := range f.Names {
				if o := c.info.Defs[nm]; o != nil {
					c.named = append(c.named, o)
					st.vars[o] = c.zero(e.Sorts.SortOf(o.Type()), o.Type())
				}
			}
		}
	}
	// ghost globals
	// (sorted; a ghost of the function's own package wins when two packages use the same short name)
	var gnames []string
	for name := range e.Contracts.Globals {
		gnames = append(gnames, name)
	}
	sort.Slice(gnames, func(i, j int) bool {
		oi, oj := strings.HasPrefix(gnames[i], spec.Pkg+"."), strings.HasPrefix(gnames[j], spec.Pkg+".")
		if oi != oj {
			return oj
		}
		return gnames[i] < gnames[j]
	})
	for _, name := range gnames {
		gs := e.Contracts.Globals[name]
		if strings.HasPrefix(gs.Kind, "ghost:") {
			sort := strings.TrimPrefix(gs.Kind, "ghost:")
			if strings.Contains(sort, "I.error") {
				e.Sorts.SortOf(types.Universe.Lookup("error").Type())
			}
			short := name[strings.Index(name, ".")+1:]
			st.spec["ghost."+short] = Val{T: c.fresh("ghost."+short, sort)}
		}
	}
	// axioms
	for _, ax := range e.Contracts.Axioms {
		pk := e.PkgByName[ax.Pkg]
		env := &Env{c: c, st: st, names: map[string]Val{}, pkg: pk}
		c.guarded(st, func() { st.Assume(env.evalSpecBool(ax.Clause)) })
		st.dead = false
	}
	// lets
	c.guarded(st, func() {
		for _, l := range spec.Lets {
			env := c.specEnvAt(st, token.NoPos)
			v := env.evalSpecString(l.Expr)
			st.spec[l.Name] = Val{T: c.nameTerm(st, l.Name, env.term(v, token.NoPos))}
		}
		for _, r := range spec.Requires {
			st.Assume(c.specEnvAt(st, token.NoPos).evalSpecBool(r))
		}
	})
	// freeze entry state for old()
	c.entry = st.Clone()
	work := st
	c.curPos = fi.Decl.Pos()
	c.oblige(work, "cover", "requires", "false", spec.Props, "precondition is satisfiable")
	c.obls[len(c.obls)-1].ExpectSat = true
	c.runGhosts(work, "entry", fi.Decl.Body.Lbrace+1)
	outs := c.execBlock(fi.Decl.Body.List, work)
	for _, o := range outs {
		if o.st.dead {
			continue
		}
		c.finishPath(o.st, o.kind == oReturn)
	}
	if spec.Determined {
		c.uniqueness()
	}
	if len(spec.Deterministic) > 0 {
		c.detPass()
	}
	if len(spec.Fresh) > 0 {
		c.freshPass()
	}
	for _, a := range spec.Asserts {
		if !c.assertSeen[a.Label+"|"+a.Expr] {
			c.unsupported(token.NoPos, "assert %q was not evaluated on any path (site %q never reached or unknown names)", a.Label, a.At)
		}
	}
	// a ghost statement or lemma use whose site never fired is a mistake in the contract (misspelt site): not silent
	for _, g := range spec.Ghosts {
		if !c.assertSeen["ghost|"+g.At+"|"+g.Stmt] {
			c.unsupported(token.NoPos, "ghost statement %q: site %q was never reached", g.Stmt, g.At)
		}
	}
	for _, u := range spec.Uses {
		if !c.assertSeen["use|"+u.At+"|"+u.Call] {
			c.unsupported(token.NoPos, "use %s: site %q was never reached", u.Call, u.At)
		}
	}
	res.Obligations = c.obls
	res.Unsupported = c.unsupp
	res.Abstracted = c.abstracted
	res.BareLoops = c.bareLoops
	res.Decls = c.decls
	return res
}

func (c *FnCtx) recvObj() types.Object {
	if c.fi.Decl.Recv == nil || len(c.fi.Decl.Recv.List) == 0 || len(c.fi.Decl.Recv.List[0].Names) == 0 {
		return nil
	}
	return c.info.Defs[c.fi.Decl.Recv.List[0].Names[0]]
}

// finishPath: deferred calls, exit ghosts, postconditions, frame.
func (c *FnCtx) finishPath(st *State, explicit bool) {
	endPos := c.fi.Decl.Body.Rbrace
	c.curPos = endPos
	sig := c.fi.Obj.Type().(*types.Signature)
	if !explicit {
		st.retVals = nil
		if sig.Results().Len() > 0 {
			// falling off the end with results is impossible in compiled Go
			return
		}
	}
	// named results: the return statement assigns them, deferred functions may change them, then they are returned
	if explicit && len(c.named) > 0 && len(st.retVals) == len(c.named) {
		for i, o := range c.named {
			rv := st.retVals[i]
			if rv.Loc == nil {
				st.vars[o] = rv.T
			}
		}
	}
	// deferred calls, LIFO
	if len(st.defers) > 0 {
		i := len(st.defers) - 1
		call := st.defers[i]
		st.defers = st.defers[:i]
		if fl, ok := unparen(call.Fun).(*ast.FuncLit); ok && len(call.Args) == 0 {
			// a deferred closure without parameters: its body runs in this frame
			for _, o := range c.execBlock(fl.Body.List, st) {
				if o.st.dead {
					continue
				}
				if len(c.named) > 0 {
					o.st.retVals = nil
					for _, no := range c.named {
						o.st.retVals = append(o.st.retVals, c.varVal(o.st, no))
					}
				} else {
					o.st.retVals = st.retVals
				}
				c.finishPath(o.st, true)
			}
			return
		}
		c.guarded(st, func() { c.codeEnv(st).eval(call) })
		if st.dead {
			return
		}
		if len(c.named) > 0 && explicit {
			st.retVals = nil
			for _, no := range c.named {
				st.retVals = append(st.retVals, c.varVal(st, no))
			}
		}
		c.finishPath(st, explicit)
		return
	}
	// results are visible to exit-site ghost statements and asserts
	for i, rv := range st.retVals {
		st.spec[fmt.Sprintf("result%d", i)] = rv
	}
	if len(st.retVals) == 1 {
		st.spec["result"] = st.retVals[0]
	}
	c.runGhosts(st, "exit", endPos)
	for i := range st.retVals {
		delete(st.spec, fmt.Sprintf("result%d", i))
	}
	delete(st.spec, "result")
	if st.dead {
		return
	}
	c.retPaths++
	env := c.specEnvAt(st, token.NoPos)
	// in postconditions a non-pointer parameter denotes its value at entry (parameters are mutable locals)
	for n, o := range c.specNames {
		if _, isPtr := o.Type().Underlying().(*types.Pointer); !isPtr {
			env.names[n] = c.varVal(c.entry, o)
		}
	}
	for i, rv := range st.retVals {
		env.names[fmt.Sprintf("result%d", i)] = rv
		if i < len(c.named) {
			env.names[c.named[i].Name()] = rv
		}
	}
	_, _, _, rnames := specParamNames(c.spec.Decl)
	for i, rn := range rnames {
		if rn != "" && i < len(st.retVals) {
			env.names[rn] = st.retVals[i]
		}
	}
	if len(st.retVals) == 1 {
		env.names["result"] = st.retVals[0]
	}
	if c.spec.RetElem != "" && len(st.retVals) == 1 {
		rv := st.retVals[0]
		ok := "false"
		if rv.IsNil {
			ok = "true"
			env.names["result"] = Val{Loc: &Loc{Root: c.specNames[c.spec.RetElem], Path: []PathElem{{Kind: "index", Idx: tInt(0)}}, NilCond: "true"}}
		} else if rv.Loc != nil && rv.Loc.Root == c.specNames[c.spec.RetElem] && len(rv.Loc.Path) == 1 && rv.Loc.Path[0].Kind == "index" {
			ok = "true"
		} else if si := c.eng.Sorts.Info(rv.T.Sort); rv.Loc == nil && si != nil && si.Kind == KPtr {
			// a value pointer: acceptable only when nil
			ok = not(app(rv.T.Sort+".nonnil", rv.T.S))
			env.names["result"] = Val{Loc: &Loc{Root: c.specNames[c.spec.RetElem], Path: []PathElem{{Kind: "index", Idx: tInt(0)}}, NilCond: "true"}}
		}
		c.oblige(st, "post", "returns_elem", ok, c.spec.Props, "result is nil or points to an element of "+c.spec.RetElem)
	}
	for i, en := range c.spec.Ensures {
		lbl := en.Label
		if lbl == "" {
			lbl = fmt.Sprintf("e%d", i+1)
		}
		var g string
		c.guarded(st, func() { g = env.evalSpecBool(en) })
		if st.dead {
			return
		}
		props := en.Props
		if props == nil {
			props = c.spec.Props
		}
		c.oblige(st, "post", lbl, g, props, en.Expr)
	}
	// frame: pointer parameters not listed in modifies keep their pointee
	mod := map[types.Object]bool{}
	for _, m := range c.spec.Modifies {
		if o, ok := c.specNames[m]; ok {
			mod[o] = true
		}
	}
	objs := append([]types.Object{}, c.params...)
	if c.recv != nil {
		objs = append(objs, c.recv)
	}
	for _, o := range objs {
		if _, isPtr := o.Type().Underlying().(*types.Pointer); !isPtr || mod[o] {
			continue
		}
		cur, ok1 := st.vars[o]
		old, ok2 := c.entry.vars[o]
		if ok1 && ok2 && cur.S != old.S {
			c.oblige(st, "frame", o.Name(), eq(app(cur.Sort+".val", cur.S), app(old.Sort+".val", old.S)), c.spec.Props, "pointee of "+o.Name()+" is unchanged (not listed in modifies)")
		}
	}
	// frame: package-level variables assigned on this path are listed in modifies (callers rely on the list)
	var gvars []*types.Var
	for o := range st.vars {
		if v, ok := o.(*types.Var); ok && v.Pkg() != nil && v.Parent() == v.Pkg().Scope() {
			gvars = append(gvars, v)
		}
	}
	sort.Slice(gvars, func(i, j int) bool { return gvars[i].Name() < gvars[j].Name() })
	for _, v := range gvars {
		var o types.Object = v
		cur := st.vars[o]
		old, ok2 := c.entry.vars[o]
		if !ok2 || cur.S == old.S {
			continue
		}
		listed := false
		for _, m := range c.spec.Modifies {
			if m == v.Name() {
				listed = true
			}
		}
		if !listed {
			c.oblige(st, "frame", "g."+v.Name(), eq(cur.S, old.S), c.spec.Props, "package-level variable "+v.Name()+" is unchanged (not listed in modifies)")
		}
	}
	c.oblige(st, "cover", fmt.Sprintf("return%d", c.retPaths), "false", c.spec.Props, "return path reachable")
	c.obls[len(c.obls)-1].ExpectSat = true
	c.obls[len(c.obls)-1].ID = c.fi.Key + "#cover.return"
}

// uniqueness: the postconditions determine the results. Two arbitrary outcomes (results and post-states of the
// modified pointees) that both satisfy every ensures clause for the same pre-state are equal. Together with the
// proved postconditions this makes the function's result independent of map iteration order and of anything else.
func (c *FnCtx) uniqueness() {
	st := c.entry.Clone()
	sig := c.fi.Obj.Type().(*types.Signature)
	mk := func(tag string) (map[string]Val, []Val, map[string]Val) {
		names := map[string]Val{}
		for n, o := range c.specNames {
			names[n] = c.varVal(c.entry, o)
		}
		posts := map[string]Val{}
		for _, m := range c.spec.Modifies {
			o, ok := c.specNames[m]
			if !ok {
				continue
			}
			pv := c.entry.vars[o]
			si := c.eng.Sorts.Info(pv.Sort)
			if si == nil || si.Kind != KPtr {
				continue
			}
			nv := c.fresh(m+"_"+tag, si.Elem)
			v := Val{T: Term{app(si.Ctor, app(pv.Sort+".nonnil", pv.S), nv.S), pv.Sort}, GoT: o.Type()}
			names[m] = v
			posts[m] = Val{T: nv}
		}
		var res []Val
		for i := 0; i < sig.Results().Len(); i++ {
			rt := sig.Results().At(i).Type()
			r := c.fresh(fmt.Sprintf("res%d_%s", i, tag), c.eng.Sorts.SortOf(rt))
			st.Assume(c.typeFacts(r, rt))
			v := Val{T: r, GoT: rt}
			res = append(res, v)
			names[fmt.Sprintf("result%d", i)] = v
		}
		if len(res) == 1 {
			names["result"] = res[0]
		}
		return names, res, posts
	}
	oldNames := map[string]Val{}
	for n, o := range c.specNames {
		oldNames[n] = c.varVal(c.entry, o)
	}
	for k, v := range c.entry.spec {
		if _, ok := oldNames[k]; !ok {
			oldNames[k] = v
		}
	}
	n1, r1, p1 := mk("a")
	n2, r2, p2 := mk("b")
	ok := true
	c.guarded(st, func() {
		for _, names := range []map[string]Val{n1, n2} {
			env := &Env{c: c, st: st, names: names, pkg: c.fi.Pkg, old: &Env{c: c, st: c.entry, names: oldNames, pkg: c.fi.Pkg}}
			for _, en := range c.spec.Ensures {
				st.Assume(env.evalSpecBool(en))
			}
		}
	})
	if st.dead {
		ok = false
	}
	if !ok {
		return
	}
	var goals []string
	// observable equality: slices agree on [0, len), maps on their keys, structs field by field (recursively);
	// what lies behind a slice's length or under an absent key is not observable
	nvar := 0
	var same func(a, b Term, t types.Type) string
	same = func(a, b Term, t types.Type) string {
		si := c.eng.Sorts.Info(a.Sort)
		if si != nil {
			switch si.Kind {
			case KIface:
				if a.Sort == "I.error" {
					return eq(eq(a.S, "I.error.nil"), eq(b.S, "I.error.nil")) // only nil-ness of errors is observable
				}
			case KMap:
				nvar++
				k := fmt.Sprintf("k!u%d", nvar)
				va := Term{fmt.Sprintf("(select (%s.val %s) %s)", a.Sort, a.S, k), si.Elem}
				vb := Term{fmt.Sprintf("(select (%s.val %s) %s)", a.Sort, b.S, k), si.Elem}
				return fmt.Sprintf("(forall ((%s %s)) (and (= (select (%s.has %s) %s) (select (%s.has %s) %s)) (=> (select (%s.has %s) %s) %s)))",
					k, si.Key, a.Sort, a.S, k, a.Sort, b.S, k, a.Sort, a.S, k, same(va, vb, nil))
			case KSlice:
				nvar++
				i := fmt.Sprintf("i!u%d", nvar)
				ea := Term{fmt.Sprintf("(select (%s.arr %s) %s)", a.Sort, a.S, i), si.Elem}
				eb := Term{fmt.Sprintf("(select (%s.arr %s) %s)", a.Sort, b.S, i), si.Elem}
				return fmt.Sprintf("(and (= (%s.len %s) (%s.len %s)) (forall ((%s Int)) (=> (and (<= 0 %s) (< %s (%s.len %s))) %s)))",
					a.Sort, a.S, a.Sort, b.S, i, i, i, a.Sort, a.S, same(ea, eb, nil))
			case KStruct:
				var fs []string
				for _, f := range si.Fields {
					fs = append(fs, same(Term{app(f.Sel, a.S), f.Sort}, Term{app(f.Sel, b.S), f.Sort}, nil))
				}
				if len(fs) > 0 {
					return and(fs...)
				}
			}
		}
		return eq(a.S, b.S)
	}
	for i := range r1 {
		goals = append(goals, same(r1[i].T, r2[i].T, r1[i].GoT))
	}
	for m := range p1 {
		goals = append(goals, same(p1[m].T, p2[m].T, nil))
	}
	c.curPos = c.fi.Decl.Pos()
	c.oblige(st, "det", "unique", and(goals...), c.spec.Props, "the postconditions determine the results (two outcomes satisfying every ensures clause are equal): independent of map iteration order")
}

// detPass: determinism discipline inside a function marked deterministic (DESIGN.md 7.13): no goroutines, channels,
// select, time/rand/environment; every map-range loop needs the function to be `determined` (uniqueness obligation).
func (c *FnCtx) detPass() {
	var bad []string
	mapLoops := 0
	ast.Inspect(c.fi.Decl.Body, func(n ast.Node) bool {
		pos := func(p token.Pos) string { return fmt.Sprintf("line %d", c.eng.Fset.Position(p).Line) }
		switch x := n.(type) {
		case *ast.GoStmt:
			bad = append(bad, "go statement at "+pos(x.Pos()))
		case *ast.SelectStmt:
			bad = append(bad, "select at "+pos(x.Pos()))
		case *ast.SendStmt:
			bad = append(bad, "channel send at "+pos(x.Pos()))
		case *ast.UnaryExpr:
			if x.Op == token.ARROW {
				bad = append(bad, "channel receive at "+pos(x.Pos()))
			}
		case *ast.RangeStmt:
			if t := c.info.TypeOf(x.X); t != nil {
				if _, ok := t.Underlying().(*types.Map); ok {
					mapLoops++
				}
			}
		case *ast.SelectorExpr:
			if id, ok := x.X.(*ast.Ident); ok {
				if pn, ok := c.info.ObjectOf(id).(*types.PkgName); ok {
					switch pn.Imported().Path() {
					case "time", "math/rand", "crypto/rand", "math/rand/v2":
						bad = append(bad, pn.Imported().Path()+"."+x.Sel.Name+" at "+pos(x.Pos()))
					case "os":
						if x.Sel.Name == "Getenv" || x.Sel.Name == "Environ" || x.Sel.Name == "Getpid" || x.Sel.Name == "Hostname" {
							bad = append(bad, "os."+x.Sel.Name+" at "+pos(x.Pos()))
						}
					}
				}
			}
		}
		return true
	})
	props := c.spec.Deterministic
	c.curPos = c.fi.Decl.Pos()
	g := "true"
	if len(bad) > 0 {
		g = "false"
	}
	c.oblige(c.entry.Clone(), "det", "discipline", g, props, "no goroutine, channel, select, clock, random or environment access in the body")
	if len(bad) > 0 {
		o := c.obls[len(c.obls)-1]
		o.Status, o.Backend, o.Output = "failed", "constfold", strings.Join(bad, "; ")
	}
	g2 := "true"
	if mapLoops > 0 && !c.spec.Determined {
		g2 = "false"
	}
	c.oblige(c.entry.Clone(), "det", "maprange", g2, props, fmt.Sprintf("%d map-range loop(s): allowed only when the postconditions determine the result (clause `determined`)", mapLoops))
	if g2 == "false" {
		o := c.obls[len(c.obls)-1]
		o.Status, o.Backend, o.Output = "failed", "constfold", "map iteration order may reach the result: no uniqueness obligation"
	}
}

// lemmaUse instantiates lemma `u.Call` inside the proof of lemma `key` (guard u.When).
func (c *FnCtx) lemmaUse(st *State, env *Env, names map[string]Val, key string, ui int, u UseSpec) {
	call := strings.TrimSpace(u.Call)
	k := strings.Index(call, "(")
	if k < 0 || !strings.HasSuffix(call, ")") {
		panic(unsupportedErr{"use needs name(args): " + call})
	}
	name := call[:k]
	lkey := c.spec.Pkg + ".lemma." + name
	lem := c.eng.Contracts.Funcs[lkey]
	if lem == nil {
		panic(unsupportedErr{"unknown lemma " + name})
	}
	recursive := lkey == key
	if !recursive && c.lemmaReaches(lkey, key, map[string]bool{}) {
		// mutual recursion between lemmas is not supported (no common measure): would be circular reasoning
		panic(unsupportedErr{"lemma " + name + " depends on " + key + ": circular use"})
	}
	if recursive && c.spec.Decreases == "" {
		panic(unsupportedErr{"recursive use of " + name + " needs a decreases clause"})
	}
	_, pnames, _, _ := specParamNames(lem.Decl)
	args := splitTopCommas(call[k+1 : len(call)-1])
	if len(args) == 1 && strings.TrimSpace(args[0]) == "" {
		args = nil
	}
	if len(args) != len(pnames) {
		panic(unsupportedErr{fmt.Sprintf("lemma %s expects %d arguments", name, len(pnames))})
	}
	guard := "true"
	if u.When != "" {
		guard = env.evalSpecBool(Clause{Expr: u.When, File: u.File, Line: u.Line})
	}
	inst := map[string]Val{}
	for i, a := range args {
		v := env.evalSpecString(strings.TrimSpace(a))
		inst[pnames[i]] = Val{T: env.term(v, token.NoPos), Const: v.Const}
	}
	if lem.Decl.Type.Params != nil {
		i := 0
		for _, f := range lem.Decl.Type.Params.List {
			for range f.Names {
				if pt, err := c.eng.evalType(c.fi.Pkg, exprString2(f.Type)); err == nil {
					inst[pnames[i]] = env.coerce(inst[pnames[i]], c.eng.Sorts.SortOf(pt))
					v := inst[pnames[i]]
					v.GoT = pt
					inst[pnames[i]] = v
				}
				i++
			}
		}
	}
	lenv := &Env{c: c, st: st, names: inst, pkg: c.fi.Pkg, foreign: true}
	for i, r := range lem.Requires {
		lbl := r.Label
		if lbl == "" {
			lbl = fmt.Sprintf("r%d", i+1)
		}
		c.oblige(st, fmt.Sprintf("pre@lemma.%s#%d", name, ui+1), lbl, implies(guard, lenv.evalSpecBool(r)), c.spec.Props, r.Expr)
	}
	if recursive {
		m0 := env.evalSpecString(c.spec.Decreases).T.S
		m1 := lenv.evalSpecString(c.spec.Decreases).T.S
		c.oblige(st, fmt.Sprintf("decreases@lemma.%s#%d", name, ui+1), "", implies(guard, and(app("<=", "0", m1), app("<", m1, m0))), c.spec.Props, c.spec.Decreases)
	}
	for _, en := range lem.Ensures {
		st.Assume(implies(guard, lenv.evalSpecBool(en)))
	}
}

// lemmaReaches: does lemma `from` (transitively) use lemma `to`?
func (c *FnCtx) lemmaReaches(from, to string, seen map[string]bool) bool {
	if seen[from] {
		return false
	}
	seen[from] = true
	f := c.eng.Contracts.Funcs[from]
	if f == nil || f.Trusted {
		return false
	}
	for _, u := range f.Uses {
		call := strings.TrimSpace(u.Call)
		k := strings.Index(call, "(")
		if k < 0 {
			continue
		}
		next := f.Pkg + ".lemma." + call[:k]
		if next == to {
			return true
		}
		if next != from && c.lemmaReaches(next, to, seen) {
			return true
		}
	}
	return false
}

// loopHeader: source text of a loop statement up to its body, white space normalised.
func loopHeader(e *Engine, s ast.Stmt) string {
	var body *ast.BlockStmt
	switch x := s.(type) {
	case *ast.ForStmt:
		body = x.Body
	case *ast.RangeStmt:
		body = x.Body
	}
	start := e.Fset.Position(s.Pos())
	end := e.Fset.Position(body.Lbrace)
	data, err := os.ReadFile(start.Filename)
	if err != nil || end.Offset > len(data) || start.Offset > end.Offset {
		return ""
	}
	return strings.Join(strings.Fields(string(data[start.Offset:end.Offset])), " ")
}
