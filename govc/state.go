package main

import (
	"fmt"
	"go/ast"
	"go/constant"
	"go/token"
	"go/types"
	"strings"
)

// PathElem is one step of an lvalue path below a root variable.
type PathElem struct {
	Kind  string // "field", "index", "deref", "mapidx"
	Field string
	Idx   Term
}

// Loc is an executor-level location: root variable + path. A pointer value with a
// known location is represented by its Loc (so writes through it reach the root).
type Loc struct {
	Root    types.Object
	Path    []PathElem
	NilCond string // SMT Bool: true when the pointer is nil ("false" for &x)
	Ver     int    // version of Root at creation (reallocation guard)
}

// Val is the result of evaluating an expression.
type Val struct {
	T     Term
	Loc   *Loc           // pointer with known location
	GoT   types.Type     // Go type when known
	Const constant.Value // untyped/typed constant value when known
	Tuple []Val
	IsNil bool // untyped nil
}

type State struct {
	vars     map[types.Object]Term
	locs     map[types.Object]*Loc
	vers     map[types.Object]int
	spec     map[string]Val // binders, lets, ghost globals ("ghost.x")
	hyps     []string
	gfacts   []string // facts about immutable globals: unconditional, never wrapped by a short-circuit guard
	defers   []*ast.CallExpr
	path     []string
	dead     bool
	retVals  []Val
	// fresh taint: locals known to hold freshly allocated slices
}

func NewState() *State {
	return &State{vars: map[types.Object]Term{}, locs: map[types.Object]*Loc{}, vers: map[types.Object]int{}, spec: map[string]Val{}}
}

func (s *State) Clone() *State {
	n := &State{vars: make(map[types.Object]Term, len(s.vars)), locs: make(map[types.Object]*Loc, len(s.locs)),
		vers: make(map[types.Object]int, len(s.vers)), spec: make(map[string]Val, len(s.spec))}
	for k, v := range s.vars {
		n.vars[k] = v
	}
	for k, v := range s.locs {
		n.locs[k] = v
	}
	for k, v := range s.vers {
		n.vers[k] = v
	}
	for k, v := range s.spec {
		n.spec[k] = v
	}
	n.hyps = append([]string(nil), s.hyps...)
	n.gfacts = append([]string(nil), s.gfacts...)
	n.defers = append([]*ast.CallExpr(nil), s.defers...)
	n.path = append([]string(nil), s.path...)
	n.dead = s.dead
	return n
}

func (s *State) Assume(h string) {
	if h == "true" {
		return
	}
	s.hyps = append(s.hyps, h)
}

// AssumeFor adds a hypothesis that is visible only to obligations carrying one of the given properties.
// The scope travels with the hypothesis as a leading SMT comment; a hypothesis that gets wrapped (guards of
// short-circuit evaluation, inlined summaries) loses the marker and is then visible everywhere, which is sound.
func (s *State) AssumeFor(h string, cl Clause) {
	if h == "true" {
		return
	}
	if !cl.Only || len(cl.Props) == 0 {
		s.hyps = append(s.hyps, h)
		return
	}
	s.hyps = append(s.hyps, onlyMarker+strings.Join(cl.Props, ",")+"\n"+h)
}

const onlyMarker = ";@only="

// visibleHyps filters scoped hypotheses for an obligation with the given properties.
func visibleHyps(hyps []string, props []string) []string {
	out := make([]string, 0, len(hyps))
	for _, h := range hyps {
		if strings.HasPrefix(h, onlyMarker) {
			nl := strings.Index(h, "\n")
			tags := strings.Split(h[len(onlyMarker):nl], ",")
			seen := false
			for _, t := range tags {
				for _, p := range props {
					if p == t {
						seen = true
					}
				}
			}
			if !seen {
				continue
			}
		}
		out = append(out, h)
	}
	return out
}

// Obligation is one verification condition.
type Obligation struct {
	ID        string
	Kind      string
	Func      string
	Props     []string
	Hyps      []string
	Goal      string
	Decls     *[]string
	Pos       token.Position
	Path      string
	ExpectSat bool // cover obligations: satisfiable expected
	Opaque    []string
	HintKey   string
	GoalText  string

	// results
	Status  string // discharged | failed | covered | uncovered
	Backend string
	Seconds float64
	Output  string
	Model   string
}

// FnCtx is the verification context of one function.
type FnCtx struct {
	eng    *Engine
	fi     *FuncInfo
	spec   *FuncSpec
	info   *types.Info
	decls  []string
	nfresh int
	obls   []*Obligation
	unsupp []string
	loopOrd map[ast.Stmt]int
	callOrd map[*ast.CallExpr]string // callee name#k
	siteOrd map[string]int
	entry   *State
	retPaths int
	named   []types.Object // named results
	params  []types.Object
	recv    types.Object
	specNames map[string]types.Object // contract param name -> object
	bareLoops  []string                     // loops executed without an invariant from the contract
	abstracted []string                     // external callees abstracted in this function
	rootFi    *FuncInfo                     // while a contract-less callee is inlined: the function under verification
	objAlias  map[types.Object]types.Object // inlined callee's pointer receiver -> the caller's pointer variable
	safety  bool
	extraAxioms []string
	curPos  token.Pos
	oblSeq  map[string]int
	assignOrd map[ast.Stmt]string
	assertSeen map[string]bool
	hintPass    int
	provedHints map[string]bool
	inlineDepth int
}

func (c *FnCtx) fresh(hint, sort string) Term {
	c.nfresh++
	hint = strings.Map(func(r rune) rune {
		if r >= 'a' && r <= 'z' || r >= 'A' && r <= 'Z' || r >= '0' && r <= '9' || r == '_' || r == '.' {
			return r
		}
		return '_'
	}, hint)
	name := fmt.Sprintf("%s!%d", hint, c.nfresh)
	c.decls = append(c.decls, fmt.Sprintf("(declare-const %s %s)", name, sort))
	return Term{name, sort}
}

func (c *FnCtx) unsupported(pos token.Pos, format string, args ...interface{}) {
	msg := fmt.Sprintf(format, args...)
	if pos.IsValid() {
		p := c.eng.Fset.Position(pos)
		msg = fmt.Sprintf("%s:%d: %s", shortPath(p.Filename), p.Line, msg)
	}
	for _, u := range c.unsupp {
		if u == msg {
			return
		}
	}
	c.unsupp = append(c.unsupp, msg)
}

// oblige records an obligation: under the current hypotheses, goal must hold.
func (c *FnCtx) oblige(st *State, kind, label string, goal string, props []string, goalText string) {
	if strings.HasPrefix(kind, "frame") && len(c.spec.FrameProps) > 0 {
		props = append(append([]string(nil), props...), c.spec.FrameProps...)
	}
	if st.dead || goal == "true" {
		if goal == "true" && kind != "cover" {
			// trivially true goals are still counted (constfold) so that counts are stable
			o := &Obligation{ID: c.oblID(kind, label), Kind: kind, Func: c.ownerKey(), Props: props, Goal: "true", Decls: &c.decls,
				Pos: c.eng.Fset.Position(c.curPos), GoalText: goalText, Status: "discharged", Backend: "constfold"}
			c.obls = append(c.obls, o)
		}
		return
	}
	o := &Obligation{ID: c.oblID(kind, label), Kind: kind, Func: c.ownerKey(), Props: props, Hyps: append(append([]string(nil), st.gfacts...), visibleHyps(st.hyps, props)...), Goal: goal,
		Decls: &c.decls, Pos: c.eng.Fset.Position(c.curPos), Path: strings.Join(st.path, ";"), GoalText: goalText, Opaque: c.opaqueFor(kind, label)}
	c.obls = append(c.obls, o)
}

// opaqueFor: the opaque spec functions of the function, minus those revealed for this obligation's label.
func (c *FnCtx) opaqueFor(kind, label string) []string {
	if len(c.spec.OpaqueExc) == 0 {
		return c.spec.Opaque
	}
	id := "." + kind + "." + label + "."
	var out []string
	for _, f := range c.spec.Opaque {
		revealed := false
		for _, l := range c.spec.OpaqueExc[f] {
			if strings.Contains(id, "."+l+".") {
				revealed = true
			}
		}
		if !revealed {
			out = append(out, f)
		}
	}
	return out
}

// ownerKey: the function whose verification the obligation belongs to (the caller, while a helper is inlined).
func (c *FnCtx) ownerKey() string {
	if c.rootFi != nil {
		return c.rootFi.Key
	}
	return c.fi.Key
}

func (c *FnCtx) resolveAlias(o types.Object) types.Object {
	for i := 0; i < 4; i++ {
		n, ok := c.objAlias[o]
		if !ok {
			break
		}
		o = n
	}
	return o
}

func (c *FnCtx) oblID(kind, label string) string {
	id := c.fi.Key + "#" + kind
	if c.rootFi != nil {
		id = c.rootFi.Key + "#" + kind + "@" + c.fi.Decl.Name.Name
	}
	if label != "" {
		id += "." + label
	}
	return id
}

// typeFacts returns range hypotheses for a fresh value of Go type t.
func (c *FnCtx) typeFacts(v Term, t types.Type) string {
	if t == nil {
		return "true"
	}
	extra := "true"
	if n, ok := t.(*types.Named); ok {
		if ts := c.eng.Contracts.Types[qualName(n)]; ts != nil && len(ts.Invariants) > 0 {
			if _, isStruct := n.Underlying().(*types.Struct); !isStruct {
				var parts []string
				for _, inv := range ts.Invariants {
					env := &Env{c: c, st: NewState(), names: map[string]Val{"self": {T: v, GoT: t}}}
					parts = append(parts, env.evalSpecBool(inv))
				}
				extra = and(parts...)
			}
		}
	}
	if extra != "true" {
		return and(extra, c.typeFactsU(v, t))
	}
	return c.typeFactsU(v, t)
}

func (c *FnCtx) typeFactsU(v Term, t types.Type) string {
	switch u := t.Underlying().(type) {
	case *types.Basic:
		lo, hi := intRange(u)
		if lo != "" && v.Sort == SInt {
			return and(app("<=", tIntS(lo).S, v.S), app("<=", v.S, hi))
		}
	case *types.Slice:
		if si := c.eng.Sorts.Info(v.Sort); si != nil && si.Kind == KSlice {
			l := c.eng.Sorts.slLen(v).S
			return and(app("<=", "0", l), app("<=", l, MAXLEN))
		}
	case *types.Map:
		if si := c.eng.Sorts.Info(v.Sort); si != nil && si.Kind == KMap {
			card := app(v.Sort+".card", v.S)
			return and(app("<=", "0", card), implies(not(app(v.Sort+".nonnil", v.S)), eq(card, "0")))
		}
	case *types.Pointer:
		if si := c.eng.Sorts.Info(v.Sort); si != nil && si.Kind == KPtr {
			return c.typeFacts(Term{app(v.Sort+".val", v.S), si.Elem}, u.Elem())
		}
	case *types.Struct:
		si := c.eng.Sorts.Info(v.Sort)
		if si == nil || si.Kind != KStruct {
			return "true"
		}
		var fs []string
		for _, f := range si.Fields {
			if f.GoType != nil {
				fs = append(fs, c.typeFacts(Term{app(f.Sel, v.S), f.Sort}, f.GoType))
			}
		}
		return and(fs...)
	}
	return "true"
}

func intRange(b *types.Basic) (string, string) {
	switch b.Kind() {
	case types.Int, types.Int64:
		return "-9223372036854775808", "9223372036854775807"
	case types.Int32:
		return "-2147483648", "2147483647"
	case types.Int16:
		return "-32768", "32767"
	case types.Int8:
		return "-128", "127"
	case types.Uint8:
		return "0", "255"
	case types.Uint16:
		return "0", "65535"
	}
	return "", ""
}

// zero value of a sort/type
func (c *FnCtx) zero(sort string, t types.Type) Term {
	ss := c.eng.Sorts
	switch sort {
	case SInt:
		return tInt(0)
	case SBool:
		return tBool(false)
	case SString:
		return tStr("")
	case SBV32:
		return tBV(0, 32)
	case SBV64:
		return tBV(0, 64)
	}
	si := ss.Info(sort)
	if si != nil {
		switch si.Kind {
		case KStruct:
			args := make([]string, len(si.Fields))
			for i, f := range si.Fields {
				args[i] = c.zero(f.Sort, f.GoType).S
			}
			if len(args) == 0 {
				return Term{si.Ctor, sort}
			}
			return Term{app(si.Ctor, args...), sort}
		case KSlice:
			z := c.zero(si.Elem, si.GoElem)
			return ss.mkSlice(sort, fmt.Sprintf("((as const (Array Int %s)) %s)", si.Elem, z.S), "0", "true")
		case KMap:
			z := c.zero(si.Elem, si.GoElem)
			return Term{app(si.Ctor, fmt.Sprintf("((as const (Array %s Bool)) false)", si.Key),
				fmt.Sprintf("((as const (Array %s %s)) %s)", si.Key, si.Elem, z.S), "0", "false"), sort}
		case KPtr:
			return Term{app(si.Ctor, "false", c.zero(si.Elem, si.GoElem).S), sort}
		case KIface:
			return Term{sort + ".nil", sort}
		case KArray:
			z := c.zero(si.Elem, si.GoElem)
			return Term{fmt.Sprintf("((as const %s) %s)", sort, z.S), sort}
		}
	}
	// uninterpreted zero
	name := "zero." + mangle(sort)
	c.declOnce(fmt.Sprintf("(declare-const %s %s)", name, sort))
	return Term{name, sort}
}

func (c *FnCtx) noteOnce(n string) {
	for _, x := range c.eng.Notes {
		if x == n {
			return
		}
	}
	c.eng.Notes = append(c.eng.Notes, n)
}

func (c *FnCtx) declOnce(d string) {
	for _, x := range c.decls {
		if x == d {
			return
		}
	}
	c.decls = append(c.decls, d)
}
