package main

// Minimal s-expression reader for the spec library (.smt2) files.

import (
	"fmt"
	"os"
	"path/filepath"
	"strings"
)

type SX struct {
	Atom string
	List []*SX
	IsL  bool
}

func (s *SX) String() string {
	if !s.IsL {
		return s.Atom
	}
	parts := make([]string, len(s.List))
	for i, x := range s.List {
		parts[i] = x.String()
	}
	return "(" + strings.Join(parts, " ") + ")"
}

func parseSX(src string) ([]*SX, error) {
	var out []*SX
	var stack []*SX
	i := 0
	push := func(x *SX) {
		if len(stack) == 0 {
			out = append(out, x)
		} else {
			top := stack[len(stack)-1]
			top.List = append(top.List, x)
		}
	}
	for i < len(src) {
		c := src[i]
		switch {
		case c == ';':
			for i < len(src) && src[i] != '\n' {
				i++
			}
		case c == ' ' || c == '\t' || c == '\n' || c == '\r':
			i++
		case c == '(':
			x := &SX{IsL: true}
			push(x)
			stack = append(stack, x)
			i++
		case c == ')':
			if len(stack) == 0 {
				return nil, fmt.Errorf("unbalanced )")
			}
			stack = stack[:len(stack)-1]
			i++
		case c == '"':
			j := i + 1
			for j < len(src) {
				if src[j] == '"' {
					if j+1 < len(src) && src[j+1] == '"' {
						j += 2
						continue
					}
					break
				}
				j++
			}
			push(&SX{Atom: src[i : j+1]})
			i = j + 1
		case c == '|':
			j := i + 1
			for j < len(src) && src[j] != '|' {
				j++
			}
			push(&SX{Atom: src[i : j+1]})
			i = j + 1
		default:
			j := i
			for j < len(src) && !strings.ContainsRune(" \t\n\r();", rune(src[j])) {
				j++
			}
			push(&SX{Atom: src[i:j]})
			i = j
		}
	}
	if len(stack) != 0 {
		return nil, fmt.Errorf("unbalanced (")
	}
	return out, nil
}

// SpecFn is the signature of a spec-library function.
type SpecFn struct {
	Name string
	Args []string
	Res  string
}

// SpecLib is the trusted SMT prelude: definitions the contracts may call.
type SpecLib struct {
	Text  string
	PreText string
	Fns   map[string]*SpecFn
	Sorts map[string]bool
	// selectors of spec datatypes: sort -> field -> selector fn
	Sels  map[string]map[string]string
	// (define-sort N () S): N may be used as a lemma parameter type and stands for S
	Alias map[string]string
	Files []string
}

func NewSpecLib() *SpecLib {
	return &SpecLib{Fns: map[string]*SpecFn{}, Sorts: map[string]bool{}, Sels: map[string]map[string]string{}, Alias: map[string]string{}}
}

func (sl *SpecLib) Load(path string) error {
	data, err := os.ReadFile(path)
	if err != nil {
		return err
	}
	sl.Files = append(sl.Files, path)
	return sl.AddText(string(data), strings.HasPrefix(filepath.Base(path), "pre_"))
}

func (sl *SpecLib) AddText(text string, pre bool) error {
	xs, err := parseSX(text)
	if err != nil {
		return err
	}
	if pre {
		sl.PreText += text + "\n"
	} else {
		sl.Text += text + "\n"
	}
	for _, x := range xs {
		if !x.IsL || len(x.List) == 0 {
			continue
		}
		switch x.List[0].Atom {
		case "declare-sort":
			sl.Sorts[x.List[1].Atom] = true
		case "define-sort":
			if len(x.List) == 4 && len(x.List[2].List) == 0 {
				sl.Sorts[x.List[1].Atom] = true
				sl.Alias[x.List[1].Atom] = x.List[3].String()
			}
		case "declare-const":
			sl.Fns[x.List[1].Atom] = &SpecFn{Name: x.List[1].Atom, Res: x.List[2].String()}
		case "declare-fun":
			f := &SpecFn{Name: x.List[1].Atom, Res: x.List[3].String()}
			for _, a := range x.List[2].List {
				f.Args = append(f.Args, a.String())
			}
			sl.Fns[f.Name] = f
		case "define-fun", "define-fun-rec":
			f := &SpecFn{Name: x.List[1].Atom, Res: x.List[3].String()}
			for _, a := range x.List[2].List {
				f.Args = append(f.Args, a.List[1].String())
			}
			sl.Fns[f.Name] = f
		case "declare-datatypes":
			// (declare-datatypes ((N 0) ...) (((ctor (sel S) ...) ...) ...))
			names := x.List[1].List
			for di, dt := range x.List[2].List {
				sname := names[di].List[0].Atom
				sl.Sorts[sname] = true
				sl.Sels[sname] = map[string]string{}
				for _, ctor := range dt.List {
					cf := &SpecFn{Res: sname}
					if ctor.IsL {
						cf.Name = ctor.List[0].Atom
						for _, sel := range ctor.List[1:] {
							cf.Args = append(cf.Args, sel.List[1].String())
							sl.Fns[sel.List[0].Atom] = &SpecFn{Name: sel.List[0].Atom, Args: []string{sname}, Res: sel.List[1].String()}
							sl.Sels[sname][sel.List[0].Atom] = sel.List[0].Atom
						}
					} else {
						cf.Name = ctor.Atom
					}
					sl.Fns[cf.Name] = cf
					sl.Fns["is-"+cf.Name] = &SpecFn{Name: "(_ is " + cf.Name + ")", Args: []string{sname}, Res: SBool}
					sl.Fns["is_"+cf.Name] = sl.Fns["is-"+cf.Name]
				}
			}
		}
	}
	return nil
}
