package main

func runSelftest(args []string) int { return 3 }
