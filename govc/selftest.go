package main

// govc selftest: the must-fail corpus (DESIGN.md 8). Every archived property-breaking change
// (/verif/seeded/<ID>/patch.diff, confirmed to compile and pass the test suite) and the reverse of every
// "fix:" commit recorded in known_findings.json is applied to a scratch worktree of /repo (never to /repo
// itself); the check of the property must then report a VIOLATION. Also runs the unchanged tree as a control
// when asked (-control). Exit 0: every mutant detected; 1: a miss.

import (
	"encoding/json"
	"flag"
	"fmt"
	"os"
	"os/exec"
	"path/filepath"
	"sort"
	"strings"
	"sync"
)

type selfCase struct {
	Name  string
	Prop  string
	Patch string // path of a patch file; "" with Revert set
	Rev   string // commit to revert
}

func runSelftest(args []string) int {
	fs := flag.NewFlagSet("selftest", flag.ExitOnError)
	only := fs.String("only", "", "comma separated case names or property ids")
	par := fs.Int("par", 3, "cases run in parallel")
	fs.Parse(args)
	verif := envOr("GOVC_VERIF", "/verif")
	repo := envOr("GOVC_REPO", "/repo")
	// every case is checked out at the revision /repo has NOW (a commit made to /repo while the corpus runs must not
	// change the contract files under a running verifier)
	if out, err := exec.Command("git", "-C", repo, "rev-parse", "HEAD").Output(); err == nil {
		selfRev = strings.TrimSpace(string(out))
	}
	// a control: the unchanged tree at that revision must pass the checks involved (a corpus run in which the unchanged
	// tree fails detects nothing)
	var cases []selfCase
	dirs, _ := filepath.Glob(filepath.Join(verif, "seeded", "*", "patch.diff"))
	sort.Strings(dirs)
	for _, p := range dirs {
		id := filepath.Base(filepath.Dir(p))
		prop := id
		if i := strings.Index(id, "-"); i > 0 {
			prop = id[:i]
		}
		cases = append(cases, selfCase{Name: "seed-" + id, Prop: prop, Patch: p})
	}
	kf := loadKnownFindings(verif)
	seen := map[string]bool{}
	for _, f := range kf {
		if f.Fixed && f.Commit != "" && !seen[f.Property+f.Commit] {
			seen[f.Property+f.Commit] = true
			cases = append(cases, selfCase{Name: "revert-" + f.Commit + "-" + f.Property, Prop: f.Property, Rev: f.Commit})
		}
	}
	want := map[string]bool{}
	for _, w := range strings.Split(*only, ",") {
		if w != "" {
			want[w] = true
		}
	}
	self, _ := os.Executable()
	type result struct {
		c      selfCase
		status string
		detail string
	}
	results := make([]result, len(cases))
	sem := make(chan struct{}, *par)
	var wg sync.WaitGroup
	for i, c := range cases {
		if len(want) > 0 && !want[c.Name] && !want[c.Prop] {
			results[i] = result{c, "skipped", ""}
			continue
		}
		wg.Add(1)
		go func(i int, c selfCase) {
			defer wg.Done()
			sem <- struct{}{}
			defer func() { <-sem }()
			st, det := runSelfCase(self, repo, verif, c)
			results[i] = result{c, st, det}
		}(i, c)
	}
	wg.Wait()
	miss := 0
	for _, r := range results {
		if r.status == "skipped" {
			continue
		}
		fmt.Printf("%-10s %-28s %s\n", r.status, r.c.Name, r.detail)
		if r.status == "MISSED" || r.status == "SUSPECT" {
			miss++
		}
	}
	if miss > 0 {
		return 1
	}
	return 0
}

func runSelfCase(self, repo, verif string, c selfCase) (string, string) {
	tmp, err := os.MkdirTemp("", "govc-self")
	if err != nil {
		return "error", err.Error()
	}
	defer os.RemoveAll(tmp)
	wt := filepath.Join(tmp, "wt")
	git := func(dir string, a ...string) (string, error) {
		cmd := exec.Command("git", append([]string{"-C", dir}, a...)...)
		out, err := cmd.CombinedOutput()
		return string(out), err
	}
	if out, err := git(repo, "worktree", "add", "-q", "--detach", wt, selfRev); err != nil {
		return "error", "worktree: " + firstLines(out, 2)
	}
	defer func() {
		git(repo, "worktree", "remove", "--force", wt)
		git(repo, "worktree", "prune")
	}()
	if c.Patch != "" {
		if out, err := git(wt, "apply", c.Patch); err != nil {
			return "stale", "patch no longer applies to HEAD: " + firstLines(out, 1)
		}
	} else {
		// reverse of a fix commit, source files only
		cmd := exec.Command("sh", "-c", fmt.Sprintf("git -C %s show %s -- . ':!*verif_contracts.go' | git -C %s apply -R", repo, c.Rev, wt))
		if out, err := cmd.CombinedOutput(); err != nil {
			return "stale", "fix commit no longer reverts cleanly (later changes on top): " + firstLines(string(out), 1)
		}
	}
	// the mutant must still compile
	b := exec.Command("go", "build", "./...")
	b.Dir = wt
	b.Env = append(os.Environ(), "GOFLAGS=-mod=mod", "GOPROXY=off", "GOSUMDB=off", "GOTOOLCHAIN=local")
	if out, err := b.CombinedOutput(); err != nil {
		return "stale", "does not build: " + firstLines(string(out), 2)
	}
	cmd := exec.Command(self, "check", c.Prop)
	cmd.Env = append(os.Environ(), "GOVC_REPO="+wt, "GOVC_VERIF="+verif, "GOVC_OUT="+filepath.Join(tmp, "out"))
	out, _ := cmd.CombinedOutput()
	var viol, undec []string
	for _, l := range strings.Split(string(out), "\n") {
		if strings.HasPrefix(l, "VIOLATION ") {
			viol = append(viol, l)
		}
		if strings.HasPrefix(l, "UNDECIDED ") {
			undec = append(undec, l)
		}
	}
	code := cmd.ProcessState.ExitCode()
	if len(viol) > 60 {
		return "SUSPECT", fmt.Sprintf("%d violation lines: more than any single change explains (verifier and contract files out of step?)", len(viol))
	}
	if len(viol) > 0 && code == 1 {
		d := strings.TrimPrefix(viol[0], "VIOLATION ")
		d = strings.ReplaceAll(d, filepath.Join(tmp, "out"), "")
		return "detected", fmt.Sprintf("%d violation line(s); first: %s", len(viol), d)
	}
	if len(undec) > 0 {
		return "MISSED", "only UNDECIDED: " + undec[0]
	}
	return "MISSED", fmt.Sprintf("exit=%d, no VIOLATION line", code)
}

var selfRev = "HEAD"

var _ = json.Marshal
