package main

// Counterexample search and replay against the real code (DESIGN.md 5.1).

import (
	"bytes"
	"context"
	"encoding/json"
	"fmt"
	"os"
	"os/exec"
	"path/filepath"
	"strings"
	"time"
)

// harnessSpec describes an injected in-package test.
type harnessSpec struct {
	PkgDir   string // relative to the repo root
	Template string // file under /verif/replay
	FileName string // virtual file name inside the package directory
	GOARCH   string // when set: the test binary is built for (and run as) this architecture
}

var harnesses = map[string]harnessSpec{
	"policy": {PkgDir: ".", Template: "policy_replay_test.go.txt", FileName: "zz_verif_policy_replay_test.go"},
	"disasm": {PkgDir: "cmd/seccomp-profiler/disasm", Template: "disasm_replay_test.go.txt", FileName: "zz_verif_disasm_replay_test.go"},
	"text":   {PkgDir: ".", Template: "text_replay_test.go.txt", FileName: "zz_verif_text_replay_test.go"},
	"loader": {PkgDir: ".", Template: "loader_replay_test.go.txt", FileName: "zz_verif_loader_replay_test.go"},
	"arch":   {PkgDir: "arch", Template: "arch_replay_test.go.txt", FileName: "zz_verif_arch_replay_test.go"},
	"profiler": {PkgDir: "cmd/seccomp-profiler", Template: "profiler_replay_test.go.txt", FileName: "zz_verif_profiler_replay_test.go"},
	"sandbox":  {PkgDir: "cmd/sandbox", Template: "sandbox_replay_test.go.txt", FileName: "zz_verif_sandbox_replay_test.go"},
	// the policy family compiled for a 32-bit target and run on this machine (C19: the compiler is target independent)
	"policy386": {PkgDir: ".", Template: "policy_replay_test.go.txt", FileName: "zz_verif_policy_replay_test.go", GOARCH: "386"},
}

// runOverlayTest runs `go test -overlay` in the package with the harness injected.
// env carries VERIF_* variables; the result file content is returned.
func (e *Engine) runOverlayTest(h harnessSpec, testName string, env map[string]string, timeout time.Duration) ([]byte, string, error) {
	tmp, err := os.MkdirTemp("", "govc-replay")
	if err != nil {
		return nil, "", err
	}
	defer os.RemoveAll(tmp)
	src := filepath.Join(e.VerifDir, "replay", h.Template)
	if _, err := os.Stat(src); err != nil {
		return nil, "", fmt.Errorf("harness template %s missing", h.Template)
	}
	virt := filepath.Join(e.RepoDir, h.PkgDir, h.FileName)
	ov := map[string]map[string]string{"Replace": {virt: src}}
	ovData, _ := json.Marshal(ov)
	ovFile := filepath.Join(tmp, "overlay.json")
	os.WriteFile(ovFile, ovData, 0o644)
	resFile := filepath.Join(tmp, "result.json")
	ctx, cancel := context.WithTimeout(context.Background(), timeout+30*time.Second)
	defer cancel()
	cmd := exec.CommandContext(ctx, "go", "test", "-overlay", ovFile, "-vet=off", "-count=1", "-timeout", fmt.Sprintf("%ds", int(timeout.Seconds())), "-run", "^"+testName+"$", ".")
	cmd.Dir = filepath.Join(e.RepoDir, h.PkgDir)
	cmd.Env = append(os.Environ(), "GOFLAGS=-mod=mod", "GOPROXY=off", "GOSUMDB=off", "GOTOOLCHAIN=local", "VERIF_RESULT="+resFile, "GOCACHE="+filepath.Join(tmp, "gocache"))
	// reuse the user's build cache when available (faster); fall back to the private one
	if gc := os.Getenv("GOCACHE"); gc != "" {
		cmd.Env = append(cmd.Env, "GOCACHE="+gc)
	} else if home, _ := os.UserHomeDir(); home != "" {
		cmd.Env = append(cmd.Env, "GOCACHE="+filepath.Join(home, ".cache", "go-build"))
	}
	for k, v := range env {
		cmd.Env = append(cmd.Env, k+"="+v)
	}
	if h.GOARCH != "" {
		cmd.Env = append(cmd.Env, "GOARCH="+h.GOARCH)
	}
	var out bytes.Buffer
	cmd.Stdout = &out
	cmd.Stderr = &out
	runErr := cmd.Run()
	data, _ := os.ReadFile(resFile)
	return data, out.String(), runErr
}

// replayKnown re-runs the recorded witness of a known finding; it must still reproduce.
func (e *Engine) replayKnown(kf *KnownFinding) (bool, string) {
	if kf.Harness == "" {
		return true, "no witness recorded: matched by obligation id"
	}
	return runHarness(e, kf.Harness, kf.Witness)
}

// runHarness replays witnesses; true when at least one disagreement is reproduced.
func runHarness(e *Engine, harness string, witness []byte) (bool, string) {
	h, ok := harnesses[harness]
	if !ok {
		return false, "unknown harness " + harness
	}
	tmp, err := os.MkdirTemp("", "govc-wit")
	if err != nil {
		return false, err.Error()
	}
	defer os.RemoveAll(tmp)
	wf := filepath.Join(tmp, "witness.json")
	w := bytes.TrimSpace(witness)
	if len(w) > 0 && w[0] != '[' {
		w = append(append([]byte("["), w...), ']')
	}
	os.WriteFile(wf, w, 0o644)
	data, out, _ := e.runOverlayTest(h, "TestVerifReplay", map[string]string{"VERIF_WITNESS": wf}, 120*time.Second)
	var ds []json.RawMessage
	if err := json.Unmarshal(data, &ds); err != nil {
		return false, "replay produced no result: " + firstLines(out, 8)
	}
	if len(ds) == 0 {
		return false, "witness no longer reproduces"
	}
	return true, string(ds[0])
}

// propHarness: which witness family to search for a property.
var propHarness = map[string]string{
	"C01": "policy", "C02": "policy", "C03": "policy", "C04": "policy", "C05": "policy", "C06": "policy", "C07": "policy",
	"C16": "disasm", "C14": "text", "C13": "text", "C12": "arch", "C09": "loader", "C10": "loader", "C11": "loader", "C08": "loader",
	"C17": "profiler", "C18": "profiler", "C19": "arch", "C15": "sandbox",
}

// propHarness2: a second family for properties that span two packages.
// C08 and C15 speak about what the kernel / the sandboxed target observes: that rests on the compiled program being
// right, which is C01-C07's matter - their checks prove it; here the policy family is run as well, so that a change in
// the compiler that breaks these two properties is reported by their own checks too.
var propHarness2 = map[string]string{"C14": "sandbox", "C19": "policy386", "C08": "policy", "C15": "policy"}

// kindsFor: which disagreement kinds of the family count as a failing input for the property.
var kindsFor = map[string][]string{
	"C01": {"decision", "fault"}, "C02": {"decision"}, "C03": {"decision"}, "C04": {"decision", "fault"},
	"C05": {"kernel-verifier", "return-set", "fault"}, "C06": {"decision", "fault", "valid-rejected"},
	"C07": {"panic", "invalid-accepted", "error-with-program", "valid-rejected"},
	"C15": {"policy-truncated", "config-parse", "roundtrip-assemble", "ran-after-failure", "target-outside-policy", "target-not-run", "decision", "fault"},
	"C14": {"roundtrip", "marshal", "config-parse", "config-unpack", "roundtrip-assemble", "action-roundtrip", "operation-roundtrip", "unknown-action", "action-accepts-garbage", "operation-case", "action-case", "unknown-name-accepted"},
	"C13": {"nondeterministic-text", "caller-policy-modified", "compile-differs", "recompile-differs", "compilations-influence-each-other", "result-overwritten", "text-results-share-memory"},
	"C12": {"inverse", "alias", "unsupported", "panic"},
	"C19": {"unsupported", "panic", "decision", "fault", "valid-rejected", "kernel-verifier"},
	"C17": {"incomplete-cache-reused", "failed-run-no-error", "complete-cache-not-reused"},
	"C18": {"profile-set"},
	"C16": {"panic", "silent-truncation", "bad-name", "not-monotone", "cross-function"},
	"C08": {"handover-mismatch", "nil-but-not-in-force", "decision", "fault", "kernel-verifier"},
	"C09": {"nil-but-not-in-force", "failed-load-left-state", "probe-changed-state"},
	"C10": {"nil-but-not-in-force", "thread-not-covered", "flag-mismatch"},
	"C11": {"failed-load-left-state", "nnp-wrong-thread"},
}

var familyCache = map[string][]map[string]interface{}{}

// familyErrors: families that produced no result in this run (reported in the evidence; nothing is claimed from them)
var familyErrors []string

// findFailingInput looks for an input of the real code that exhibits the failed obligation:
// the property's witness family is enumerated against the real code (in-package test injected by overlay).
// familyMode: "search" (something failed or could not be decided: every part of the family runs) or "beside" (quick
// tier, everything proved: the expensive enumerations are left to the thorough tier). Passed to the harness as VERIF_MODE.
var familyMode = "search"

// detHarness: families that only compute or run scripted, timing-free scenarios: run in both tiers. The others (they
// talk to the kernel) run in the thorough tier and whenever a proof failed or could not be attempted.
var detHarness = map[string]bool{"policy": true, "disasm": true, "text": true, "arch": true, "sandbox": true, "profiler": true, "policy386": true}

func (e *Engine) findFailingInput(prop, id string, obs []*Obligation, tier string, seed int) (bool, interface{}) {
	var wit interface{}
	for _, hn := range []string{propHarness[prop], propHarness2[prop]} {
		if hn == "" || (familyMode == "beside" && tier != "thorough" && !detHarness[hn]) {
			continue
		}
		if f, w := e.findFailingInputIn(hn, prop, tier, seed); f {
			return true, w
		} else if wit == nil {
			wit = w
		}
	}
	return false, wit
}

func (e *Engine) findFailingInputIn(hn0, prop, tier string, seed int) (bool, interface{}) {
	hn := hn0
	cacheKey := hn0 + "/" + familyMode
	if _, ok := harnesses[hn]; !ok {
		return false, nil
	}
	h := harnesses[hn]
	if _, err := os.Stat(filepath.Join(e.VerifDir, "replay", h.Template)); err != nil {
		return false, nil
	}
	ds, cached := familyCache[cacheKey]
	if !cached {
		data, out, _ := e.runOverlayTest(h, "TestVerifFamily", map[string]string{"VERIF_FAMILY": prop, "VERIF_SEED": fmt.Sprint(seed), "VERIF_TIER": tier, "VERIF_MODE": familyMode}, 300*time.Second)
		if err := json.Unmarshal(data, &ds); err != nil {
			// one retry: under heavy load the build or the run can exceed its time limit
			data, out, _ = e.runOverlayTest(h, "TestVerifFamily", map[string]string{"VERIF_FAMILY": prop, "VERIF_SEED": fmt.Sprint(seed), "VERIF_TIER": tier, "VERIF_MODE": familyMode}, 600*time.Second)
			if err := json.Unmarshal(data, &ds); err != nil {
				familyCache[cacheKey] = nil
				familyErrors = append(familyErrors, hn0+": "+firstLines(out, 6))
				fmt.Printf("note: witness family %s produced no result (not run, build error or time limit): %s\n", hn0, strings.ReplaceAll(firstLines(out, 3), "\n", " | "))
				return false, map[string]string{"family_error": firstLines(out, 10)}
			}
		}
		familyCache[cacheKey] = ds
	}
	kinds := kindsFor[prop]
	for _, d := range ds {
		k, _ := d["kind"].(string)
		match := len(kinds) == 0
		for _, kk := range kinds {
			if kk == k {
				match = true
			}
		}
		if match {
			d["harness"] = hn
			d["how"] = "found by enumerating the witness family of " + prop + " against the real code (go test -overlay); the obligation above is the proof step that fails"
			return true, d
		}
	}
	return false, nil
}

func cmdReplay(args []string) int {
	if len(args) < 1 {
		usage()
	}
	data, err := os.ReadFile(args[0])
	if err != nil {
		fmt.Fprintln(os.Stderr, err)
		return 2
	}
	var rec struct {
		Property   string `json:"property"`
		Obligation string `json:"obligation"`
		Found      bool   `json:"failing_input_found"`
		Witness    struct {
			Harness string          `json:"harness"`
			Witness json.RawMessage `json:"witness"`
		} `json:"witness"`
	}
	if err := json.Unmarshal(data, &rec); err != nil {
		fmt.Fprintln(os.Stderr, err)
		return 2
	}
	fmt.Printf("property %s, failed obligation %s\n", rec.Property, rec.Obligation)
	if !rec.Found || rec.Witness.Harness == "" {
		fmt.Println("no failing input recorded; re-run the check to regenerate the obligation (solver output is in the replay file)")
		return 0
	}
	e, err := newEngine("", "")
	if err != nil {
		fmt.Fprintln(os.Stderr, err)
		return 3
	}
	ok, detail := runHarness(e, rec.Witness.Harness, rec.Witness.Witness)
	if ok {
		fmt.Println("REPRODUCED on the real code:", strings.TrimSpace(detail))
		return 1
	}
	fmt.Println("not reproduced:", detail)
	return 0
}
