package main

// Counterexample search and replay against the real code (DESIGN.md 5.1).

// replayKnown re-runs the recorded witness of a known finding; it must still reproduce.
func (e *Engine) replayKnown(kf *KnownFinding) (bool, string) {
	if kf.Harness == "" {
		return true, "no witness recorded: matched by obligation id"
	}
	return runHarness(e, kf.Harness, kf.Witness)
}

// findFailingInput looks for an input of the real code that exhibits the failed obligation.
func (e *Engine) findFailingInput(prop, id string, obs []*Obligation, tier string, seed int) (bool, interface{}) {
	return false, nil
}

func runHarness(e *Engine, harness string, witness []byte) (bool, string) {
	return false, "harness " + harness + " not available"
}

func runSelftest(args []string) int { return 3 }
