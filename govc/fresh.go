package main

import (
	"fmt"
	"go/ast"
	"go/token"
	"go/types"
	"strings"
)

// Provenance pass behind the clause `fresh <props>` (DESIGN.md 12.15): every result of reference type (slice, map,
// pointer, or a struct/array/interface carrying one; `error` excepted) that the function returns is allocated by
// the call itself. It must not be - or be carved out of - a package-level variable, a parameter or the receiver:
// two calls would then hand out the same memory, and what one caller does to its result (an append into spare
// capacity, an element store) would reach the other ("conversions influence each other").
//
// The pass is a flow-insensitive taint analysis over the typed AST. Sources: package-level variables, parameters
// and receivers whose type carries a reference. A local becomes tainted when something tainted is assigned to it.
// Fresh: make, new, composite literals, nil, conversions from string, append onto a fresh or nil base. Calls into
// the module are followed (a callee's result is tainted iff the callee returns something tainted given which of its
// arguments are; depth 4, recursion counts as tainted); results of calls outside the module are tainted iff one of
// the arguments is (the library is assumed not to hand out its own package-level memory: listed as an assumption).
// The value model of the executor has no addresses, so this cannot be an SMT obligation; it is decided syntactically
// and counted as one obligation (back end "constfold") per function.

func carriesRef(t types.Type, depth int) bool {
	if t == nil || depth > 6 {
		return false
	}
	if n, ok := t.(*types.Named); ok && n.Obj().Pkg() == nil && n.Obj().Name() == "error" {
		return false
	}
	if tu, ok := t.(*types.Tuple); ok {
		for i := 0; i < tu.Len(); i++ {
			if carriesRef(tu.At(i).Type(), depth+1) {
				return true
			}
		}
		return false
	}
	switch u := t.Underlying().(type) {
	case *types.Pointer, *types.Slice, *types.Map, *types.Chan:
		return true
	case *types.Interface:
		return true
	case *types.Struct:
		for i := 0; i < u.NumFields(); i++ {
			if carriesRef(u.Field(i).Type(), depth+1) {
				return true
			}
		}
	case *types.Array:
		return carriesRef(u.Elem(), depth+1)
	}
	return false
}

type freshAn struct {
	e     *Engine
	depth int
	stack map[string]bool
}

// returnsTainted: does fi return (in a reference-carrying result other than error) something derived from a
// package-level variable or from one of the parameters flagged in taintedParams (index -1 = receiver)?
func (fa *freshAn) returnsTainted(fi *FuncInfo, taintedParams map[int]bool) (bool, string) {
	if fi == nil || fi.Decl == nil || fi.Decl.Body == nil {
		return len(taintedParams) > 0, "body not available"
	}
	if fa.stack[fi.Key] || fa.depth > 4 {
		return true, "recursion or call depth in " + fi.Key
	}
	fa.stack[fi.Key] = true
	fa.depth++
	defer func() { delete(fa.stack, fi.Key); fa.depth-- }()
	info := fi.Pkg.TypesInfo
	tainted := map[types.Object]bool{}
	if fi.Decl.Recv != nil && len(fi.Decl.Recv.List) > 0 && len(fi.Decl.Recv.List[0].Names) > 0 && taintedParams[-1] {
		if o := info.Defs[fi.Decl.Recv.List[0].Names[0]]; o != nil {
			tainted[o] = true
		}
	}
	pi := 0
	if fi.Decl.Type.Params != nil {
		for _, f := range fi.Decl.Type.Params.List {
			if len(f.Names) == 0 {
				pi++
			}
			for _, nm := range f.Names {
				if o := info.Defs[nm]; o != nil && taintedParams[pi] {
					tainted[o] = true
				}
				pi++
			}
		}
	}
	var isTainted func(x ast.Expr) bool
	isTainted = func(x ast.Expr) bool {
		x = unparen(x)
		if t := info.TypeOf(x); t != nil && !carriesRef(t, 0) {
			return false
		}
		switch v := x.(type) {
		case *ast.Ident:
			o := info.ObjectOf(v)
			if tainted[o] {
				return true
			}
			if vr, ok := o.(*types.Var); ok && vr.Pkg() != nil && vr.Parent() == vr.Pkg().Scope() {
				return true
			}
			return false
		case *ast.SelectorExpr:
			if id, ok := v.X.(*ast.Ident); ok {
				if _, isPkg := info.ObjectOf(id).(*types.PkgName); isPkg {
					_, isVar := info.ObjectOf(v.Sel).(*types.Var)
					return isVar // another package's variable
				}
			}
			return isTainted(v.X)
		case *ast.IndexExpr:
			return isTainted(v.X)
		case *ast.SliceExpr:
			return isTainted(v.X)
		case *ast.StarExpr:
			return isTainted(v.X)
		case *ast.TypeAssertExpr:
			return isTainted(v.X)
		case *ast.UnaryExpr:
			if v.Op == token.AND {
				if _, lit := unparen(v.X).(*ast.CompositeLit); lit {
					return false
				}
				// &local is the address of this call's own variable; &global.x / &param.x is not
				if id, ok := unparen(v.X).(*ast.Ident); ok {
					o := info.ObjectOf(id)
					if vr, ok := o.(*types.Var); ok && vr.Pkg() != nil && vr.Parent() == vr.Pkg().Scope() {
						return true
					}
					return false
				}
				return isTaintedBase(info, tainted, v.X)
			}
			return isTainted(v.X)
		case *ast.CompositeLit:
			for _, el := range v.Elts {
				if kv, ok := el.(*ast.KeyValueExpr); ok {
					el = kv.Value
				}
				if isTainted(el) {
					return true
				}
			}
			return false
		case *ast.FuncLit, *ast.BasicLit:
			return false
		case *ast.CallExpr:
			if tv, ok := info.Types[v.Fun]; ok && tv.IsType() {
				// conversion: []byte(string) and []rune(string) allocate; others keep the operand's memory
				if at := info.TypeOf(v.Args[0]); at != nil {
					if b, ok := at.Underlying().(*types.Basic); ok && b.Info()&types.IsString != 0 {
						return false
					}
				}
				return isTainted(v.Args[0])
			}
			if id, ok := unparen(v.Fun).(*ast.Ident); ok {
				if _, isB := info.ObjectOf(id).(*types.Builtin); isB {
					switch id.Name {
					case "append":
						if isTainted(v.Args[0]) {
							return true
						}
						// elements that themselves carry references keep pointing where they pointed
						if st, ok := info.TypeOf(v).Underlying().(*types.Slice); ok && carriesRefDeep(st.Elem()) {
							for _, a := range v.Args[1:] {
								if isTainted(a) {
									return true
								}
							}
						}
						return false
					case "make", "new":
						return false
					}
					return false
				}
			}
			var fn *types.Func
			var recv ast.Expr
			switch f := unparen(v.Fun).(type) {
			case *ast.Ident:
				fn, _ = info.ObjectOf(f).(*types.Func)
			case *ast.SelectorExpr:
				if sel, ok := info.Selections[f]; ok {
					if sel.Kind() == types.MethodVal {
						fn, _ = sel.Obj().(*types.Func)
						recv = f.X
					}
				} else {
					fn, _ = info.ObjectOf(f.Sel).(*types.Func)
				}
			}
			tp := map[int]bool{}
			if recv != nil && (isTainted(recv) || isTaintedBase(info, tainted, recv)) {
				tp[-1] = true
			}
			for i, a := range v.Args {
				if isTainted(a) {
					tp[i] = true
				}
			}
			if fn != nil {
				if callee := fa.e.Funcs[fa.e.keyOfFunc(fn)]; callee != nil && callee.Decl != nil && callee.Decl.Body != nil {
					bad, _ := fa.returnsTainted(callee, tp)
					return bad
				}
			}
			return len(tp) > 0
		}
		return true // unknown expression form: not shown fresh
	}
	// propagate through assignments until nothing changes
	for changed := true; changed; {
		changed = false
		mark := func(l ast.Expr) {
			if id := rootIdent(l); id != nil {
				o := info.ObjectOf(id)
				if vr, ok := o.(*types.Var); ok && !tainted[o] && !(vr.Pkg() != nil && vr.Parent() == vr.Pkg().Scope()) {
					tainted[o] = true
					changed = true
				}
			}
		}
		ast.Inspect(fi.Decl.Body, func(n ast.Node) bool {
			switch a := n.(type) {
			case *ast.AssignStmt:
				if len(a.Lhs) == len(a.Rhs) {
					for i := range a.Lhs {
						if isTainted(a.Rhs[i]) {
							mark(a.Lhs[i])
						}
					}
				} else if len(a.Rhs) == 1 && isTainted(a.Rhs[0]) {
					for _, l := range a.Lhs {
						if t := info.TypeOf(l); t == nil || carriesRef(t, 0) {
							mark(l)
						}
					}
				}
			case *ast.ValueSpec:
				for i, nm := range a.Names {
					if i < len(a.Values) && isTainted(a.Values[i]) {
						mark(nm)
					} else if len(a.Values) == 1 && len(a.Names) > 1 && isTainted(a.Values[0]) {
						mark(nm)
					}
				}
			case *ast.RangeStmt:
				if isTainted(a.X) || isTaintedBase(info, tainted, a.X) {
					if a.Key != nil {
						if t := info.TypeOf(a.Key); t != nil && carriesRef(t, 0) {
							mark(a.Key)
						}
					}
					if a.Value != nil {
						if t := info.TypeOf(a.Value); t != nil && carriesRef(t, 0) {
							mark(a.Value)
						}
					}
				}
			}
			return true
		})
	}
	var named []types.Object
	if fi.Decl.Type.Results != nil {
		for _, f := range fi.Decl.Type.Results.List {
			for _, nm := range f.Names {
				named = append(named, info.Defs[nm])
			}
		}
	}
	bad, why := false, ""
	ast.Inspect(fi.Decl.Body, func(n ast.Node) bool {
		if _, lit := n.(*ast.FuncLit); lit {
			return false
		}
		r, ok := n.(*ast.ReturnStmt)
		if !ok || bad {
			return !bad
		}
		if len(r.Results) == 0 {
			for _, o := range named {
				if o != nil && tainted[o] && carriesRef(o.Type(), 0) {
					bad, why = true, fmt.Sprintf("named result %s at line %d of %s", o.Name(), fa.e.Fset.Position(r.Pos()).Line, fi.Key)
				}
			}
			return true
		}
		for _, x := range r.Results {
			if isTainted(x) {
				bad, why = true, fmt.Sprintf("`%s` returned at line %d of %s", exprString(x), fa.e.Fset.Position(r.Pos()).Line, fi.Key)
			}
		}
		return true
	})
	return bad, why
}

// isTaintedBase: is the variable at the root of x tainted or package-level (whatever the type of x itself)?
func isTaintedBase(info *types.Info, tainted map[types.Object]bool, x ast.Expr) bool {
	id := rootIdent(x)
	if id == nil {
		return false
	}
	o := info.ObjectOf(id)
	if tainted[o] {
		return true
	}
	if vr, ok := o.(*types.Var); ok && vr.Pkg() != nil && vr.Parent() == vr.Pkg().Scope() {
		return true
	}
	return false
}

// carriesRefDeep: reference-carrying, interfaces excepted (an interface value boxes an immutable copy).
func carriesRefDeep(t types.Type) bool {
	if _, ok := t.Underlying().(*types.Interface); ok {
		return false
	}
	return carriesRef(t, 0)
}

func (c *FnCtx) freshPass() {
	fa := &freshAn{e: c.eng, stack: map[string]bool{}}
	tp := map[int]bool{-1: true}
	if sig, ok := c.fi.Obj.Type().(*types.Signature); ok {
		for i := 0; i < sig.Params().Len(); i++ {
			tp[i] = true
		}
	}
	bad, why := fa.returnsTainted(c.fi, tp)
	c.curPos = c.fi.Decl.Pos()
	g := "true"
	if bad {
		g = "false"
	}
	c.oblige(c.entry.Clone(), "det", "fresh", g, c.spec.Fresh, "every result of reference type is allocated by the call: not (part of) a package-level variable, a parameter or the receiver")
	if bad {
		o := c.obls[len(c.obls)-1]
		o.Status, o.Backend, o.Output = "failed", "constfold", "shared memory handed out: "+strings.TrimSpace(why)
	}
}
