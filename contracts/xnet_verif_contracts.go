//go:build verif

// Contracts for functions of the dependency golang.org/x/net/bpf (the version pinned by go.mod / go.sum), read by
// /verif/govc; the function bodies are read from the module cache on every run. Comment-only file; it lives in the
// directory of package seccomp because the dependency's own directory is read-only (the "package bpf" clause below
// switches the package the contracts belong to).

package seccomp

//@ package bpf

// the raw form of each of the four instruction kinds the compiler emits (spec/70_kernel.smt2: rawLoadOp, rawJumpOp,
// rawFlip and the relation `encodes` are defined from the kernel's opcode table, not from this code)
//@ func (a RetConstant) Assemble() (RawInstruction, error)   properties C05 C08
//@   ensures @raw result1 == nil && result0.Op == 6 && result0.Jt == 0 && result0.Jf == 0 && result0.K == a.Val

//@ func (a Jump) Assemble() (RawInstruction, error)   properties C05 C08
//@   ensures @raw result1 == nil && result0.Op == 5 && result0.Jt == 0 && result0.Jf == 0 && result0.K == a.Skip

//@ func assembleLoad(dst Register, loadSize int, mode uint16, k uint32) (RawInstruction, error)   properties C05 C08
//@   ensures @err (result1 == nil) == ((dst == 0 || dst == 1) && (loadSize == 1 || loadSize == 2 || loadSize == 4))
//@   ensures @raw result1 == nil && dst == 0 && mode == 32 ==> result0.Op == rawLoadOp(loadSize) && result0.Jt == 0 && result0.Jf == 0 && result0.K == k

//@ func (a LoadAbsolute) Assemble() (RawInstruction, error)   properties C05 C08
//@   ensures @err (result1 == nil) == (a.Size == 1 || a.Size == 2 || a.Size == 4)
//@   ensures @raw result1 == nil ==> result0.Op == rawLoadOp(a.Size) && result0.Jt == 0 && result0.Jf == 0 && result0.K == a.Off

//@ func jumpToRaw(test JumpTest, operand opOperand, k uint32, skipTrue, skipFalse uint8) (RawInstruction, error)   properties C05 C08
//@   ensures @err (result1 == nil) == (test <= 7)
//@   ensures @raw result1 == nil && operand == 0 ==> result0.Op == rawJumpOp(test) && result0.Jt == ite(rawFlip(test), skipFalse, skipTrue) && result0.Jf == ite(rawFlip(test), skipTrue, skipFalse) && result0.K == k

//@ func (a JumpIf) Assemble() (RawInstruction, error)   properties C05 C08
//@   ensures @err (result1 == nil) == (a.Cond <= 7)
//@   ensures @raw result1 == nil ==> result0.Op == rawJumpOp(a.Cond) && result0.Jt == ite(rawFlip(a.Cond), a.SkipFalse, a.SkipTrue) && result0.Jf == ite(rawFlip(a.Cond), a.SkipTrue, a.SkipFalse) && result0.K == a.Val

// Assemble: one raw instruction per instruction, each the raw form of the instruction at the same index; an error
// exactly when some instruction cannot be encoded. The precondition (every element is one of the four kinds under
// contract: not nil, not another implementation of Instruction) is what the interface dispatch needs; callers prove it.
//@ macro kind4(i) = (istype(i, RetConstant) || istype(i, Jump) || istype(i, LoadAbsolute) || istype(i, JumpIf))
//@ func Assemble(insts []Instruction) ([]RawInstruction, error)   properties C05 C08
//@   requires @kinds forall(i, 0, len(insts), kind4(insts[i]))
//@   ensures @err result1 != nil ==> len(result0) == 0
//@   ensures @len result1 == nil ==> len(result0) == len(insts) && own(result0)
//@   ensures @enc result1 == nil ==> forall(i, 0, len(insts), encodes(insts[i], result0[i]))
//@   ensures @noerr {C05} forall(i, 0, len(insts), encodable(insts[i])) ==> result1 == nil
//@   loop 1 binder k match range insts
//@     invariant @len len(ret) == len(insts) && own(ret)
//@     invariant @enc forall(i, 0, k, encodes(insts[i], ret[i]))
