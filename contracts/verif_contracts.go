//go:build verif

// Contracts for package seccomp, read by /verif/govc (comment-only file: nothing is compiled).
// Syntax: DESIGN.md section 4.

package seccomp

//@ func (a ArgumentConditions) Validate() []string   properties C07
//@   ensures @len_iff (len(result) == 0) == forall(i, 0, len(a), a[i].Argument <= 5)
//@   ensures @fresh own(result)
//@   loop 1 binder k
//@     invariant @problems_iff (len(problems) == 0) == forall(i, 0, k, a[i].Argument <= 5)
//@     invariant @own own(problems)

//@ func getSyscall(syscalls []SyscallWithConditions, syscall uint32) *SyscallWithConditions   properties C03 C07
//@   returns_elem syscalls
//@   ensures @found result != nil ==> (syscalls[idx(result)].Num == syscall && forall(j, 0, idx(result), syscalls[j].Num != syscall))
//@   ensures @absent result == nil ==> forall(j, 0, len(syscalls), syscalls[j].Num != syscall)
//@   loop 1 binder k
//@     invariant @none_before forall(j, 0, k, syscalls[j].Num != syscall)

// ---------------------------------------------------------------------------
// Layer B: builder primitives (assembler.go). Ghost field G is the state of the
// single-pass forward interpreter (spec/cbpf.smt2) on the ghost event `ev`;
// it is advanced by ghost statements that read what the code actually appended.
// ---------------------------------------------------------------------------

//@ type Program
//@   field G GState

//@ func NewProgram() Program   properties C01 C03 C05 C06
//@   ensures @empty len(result.instructions) == 0 && len(result.jumps) == 0 && result.nextLabel == 1
//@   ensures @labels nonnil(result.labels) && card(result.labels) == 0

//@ func (p *Program) NewLabel() Label   properties C01 C02 C03 C06
//@   requires p != nil
//@   requires p.nextLabel < 4611686018427387904
//@   modifies p
//@   ensures @next result == old(p.nextLabel) + 1 && p.nextLabel == result
//@   ensures @frame p.G == old(p.G) && p.instructions == old(p.instructions) && p.jumps == old(p.jumps) && p.labels == old(p.labels)

//@ func (p *Program) currentIndex() Index   properties C06
//@   requires p != nil
//@   ensures result == len(p.instructions)

//@ func (p *Program) JmpIf(cond bpf.JumpTest, val uint32, trueLabel Label, falseLabel Label)   properties C01 C02 C03 C05 C06
//@   requires p != nil
//@   modifies p
//@   ghost p.G = stepJif(p.G, unbox(p.instructions[len(p.instructions)-1], bpf.JumpIf).Cond, unbox(p.instructions[len(p.instructions)-1], bpf.JumpIf).Val, p.jumps[len(p.jumps)-1].trueLabel, p.jumps[len(p.jumps)-1].falseLabel) at exit
//@   ensures @sem p.G == stepJif(old(p.G), cond, val, trueLabel, falseLabel)
//@   ensures @insn len(p.instructions) == len(old(p.instructions)) + 1 && istype(p.instructions[len(p.instructions)-1], bpf.JumpIf)
//@   ensures @frame p.nextLabel == old(p.nextLabel) && p.labels == old(p.labels)

//@ func (p *Program) SetLabel(label Label)   properties C01 C02 C03 C06
//@   requires p != nil && nonnil(p.labels)
//@   modifies p
//@   ghost p.G = stepMark(p.G, label) at exit
//@   ensures @sem p.G == stepMark(old(p.G), label)
//@   ensures @frame p.nextLabel == old(p.nextLabel) && p.instructions == old(p.instructions) && p.jumps == old(p.jumps) && nonnil(p.labels)

//@ func (p *Program) JmpIfTrue(cond bpf.JumpTest, val uint32, trueLabel Label)   properties C01 C02 C03 C05 C06
//@   requires p != nil && nonnil(p.labels)
//@   requires p.nextLabel < 4611686018427387904
//@   modifies p
//@   ensures @sem p.G == stepMark(stepJif(old(p.G), cond, val, trueLabel, old(p.nextLabel) + 1), old(p.nextLabel) + 1)
//@   ensures @frame p.nextLabel == old(p.nextLabel) + 1 && nonnil(p.labels)
//@   ensures @insn len(p.instructions) == len(old(p.instructions)) + 1

//@ func (p *Program) Ret(action Action)   properties C01 C05 C06
//@   requires p != nil
//@   modifies p
//@   ghost p.G = stepRet(p.G, unbox(p.instructions[len(p.instructions)-1], bpf.RetConstant).Val) at exit
//@   ensures @sem {C01} p.G == stepRet(old(p.G), enc(action))
//@   ensures @insn len(p.instructions) == len(old(p.instructions)) + 1 && isRetOf(p.instructions[len(p.instructions)-1], enc(action))
//@   ensures @frame p.nextLabel == old(p.nextLabel) && p.labels == old(p.labels) && p.jumps == old(p.jumps)

//@ func (p *Program) LdHi(arg uint32)   properties C02 C05
//@   requires p != nil
//@   requires @arg_le_5 arg <= 5
//@   modifies p
//@   ghost p.G = stepLd(p.G, unbox(p.instructions[len(p.instructions)-1], bpf.LoadAbsolute).Off) at exit
//@   ensures @sem {C02} p.G == mkG(g_live(old(p.G)), ite(g_live(old(p.G)), hi64(ev_args(ev)[arg]), g_A(old(p.G))), g_done(old(p.G)), g_rval(old(p.G)), g_taken(old(p.G)), g_tA(old(p.G)))
//@   ensures @insn {C05} len(p.instructions) == len(old(p.instructions)) + 1 && validLoad(p.instructions[len(p.instructions)-1])
//@   ensures @frame p.nextLabel == old(p.nextLabel) && p.labels == old(p.labels) && p.jumps == old(p.jumps)

//@ func (p *Program) LdLo(arg uint32)   properties C02 C05
//@   requires p != nil
//@   requires @arg_le_5 arg <= 5
//@   modifies p
//@   ghost p.G = stepLd(p.G, unbox(p.instructions[len(p.instructions)-1], bpf.LoadAbsolute).Off) at exit
//@   ensures @sem {C02} p.G == mkG(g_live(old(p.G)), ite(g_live(old(p.G)), lo64(ev_args(ev)[arg]), g_A(old(p.G))), g_done(old(p.G)), g_rval(old(p.G)), g_taken(old(p.G)), g_tA(old(p.G)))
//@   ensures @insn {C05} len(p.instructions) == len(old(p.instructions)) + 1 && validLoad(p.instructions[len(p.instructions)-1])
//@   ensures @frame p.nextLabel == old(p.nextLabel) && p.labels == old(p.labels) && p.jumps == old(p.jumps)

// nativeEndian is assigned once by init() (not verified: unsafe); it is one of the two orders.
//@ global nativeEndian immutable
//@ axiom @endian (nativeEndian == binary.LittleEndian) == le && (nativeEndian == binary.BigEndian) == !le
