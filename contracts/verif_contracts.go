//go:build verif

// Contracts for package seccomp, read by /verif/govc (comment-only file: nothing is compiled).
// Syntax: DESIGN.md section 4.

package seccomp

//@ func getSyscall(syscalls []SyscallWithConditions, syscall uint32) *SyscallWithConditions   properties C03 C07
//@   deterministic C13
//@   frame_props C13
//@   returns_elem syscalls
//@   ensures @found result != nil ==> (syscalls[idx(result)].Num == syscall && forall(j, 0, idx(result), syscalls[j].Num != syscall))
//@   ensures @absent result == nil ==> forall(j, 0, len(syscalls), syscalls[j].Num != syscall)
//@   loop 1 binder k match range syscalls
//@     invariant @none_before forall(j, 0, k, syscalls[j].Num != syscall)

// ---------------------------------------------------------------------------
// Layer B: builder primitives (assembler.go). Ghost field G is the state of the
// single-pass forward interpreter (spec/cbpf.smt2) on the ghost event `ev`;
// it is advanced by ghost statements that read what the code actually appended.
// ---------------------------------------------------------------------------

//@ type Program
//@   field G GState
//@   field R (Array (_ BitVec 32) Bool)

// Assumption (listed in evidence): label counters stay below 2^62 — reaching it needs 2^62 NewLabel calls.
//@ type Label
//@   invariant @label_range 0 - 4611686018427387904 < self && self < 4611686018427387904

//@ macro fresh(p) = freshAbove(p.G, p.nextLabel)
// C05 builder invariant: instructions emitted so far are of permitted kinds, returns carry values recorded in the ghost set R
//@ macro ok(p) = progOK(p.instructions, p.R)

// Representation invariant of a Program: the recorded jumps are exactly the conditional jumps of the program,
// in program order; label positions lie inside the program or at its end.
//@ macro riK(p) = forall(x, 0, len(p.instructions), isRet(p.instructions[x]) || istype(p.instructions[x], bpf.LoadAbsolute) || istype(p.instructions[x], bpf.JumpIf), trig(p.instructions[x]))
//@ macro riJ(p) = forall(k, 0, len(p.jumps), 0 <= p.jumps[k].index && p.jumps[k].index < len(p.instructions) && istype(p.instructions[p.jumps[k].index], bpf.JumpIf)) && forall(x, 0, len(p.instructions), istype(p.instructions[x], bpf.JumpIf) ==> unbox(p.instructions[x], bpf.JumpIf).SkipTrue == 0 && unbox(p.instructions[x], bpf.JumpIf).SkipFalse == 0, trig(p.instructions[x])) && forall(a, 0, len(p.jumps), forall(b, a + 1, len(p.jumps), p.jumps[a].index < p.jumps[b].index)) && jumpsComplete(p.instructions, p.jumps)
//@ macro riL(p) = nonnil(p.labels) && forallk(l, p.labels, len(p.labels[l]) >= 0 && forall(m, 0, len(p.labels[l]), 0 <= p.labels[l][m] && p.labels[l][m] <= len(p.instructions)))
// labels that have not been handed out yet have no position
//@ macro riU(p) = forallk(l, p.labels, l > p.nextLabel ==> !has(p.labels, l))
//@ macro ri(p) = riK(p) && riJ(p) && riL(p) && riU(p)
// the same invariant as one named predicate of the spec library (spec/45_asm.smt2)
//@ lemma riLink(p0 Program)
//@   ensures @fwd ri(p0) ==> riS(p0)
//@   ensures @bwd riS(p0) ==> ri(p0)
// ---- structure that makes label resolution succeed (spec/48_noerr.smt2), property C07 (d)
//@ macro ne(p) = fwdOK(p) && hopeOK(p)
//@ lemma hopeKeepNoJump(p0 Program, l Label)
//@   ensures noJumpAtEnd(p0) ==> hopeKeep(p0, l)
//@ lemma hopeKeepEnd(p0 Program, l Label, a Label, b Label)
//@   ensures endJump(p0, a, b) && ((a != l && !has(p0.labels, a)) || (b != l && !has(p0.labels, b)) || (a != l && b != l)) ==> hopeKeep(p0, l)
//@ lemma pendExt(p0 Program)
//@   ensures forallk(S, "(Array Int Bool)", forallk(T, "(Array Int Bool)", pendIn(p0, S) && forallk(l, p0.labels, S[l] ==> T[l]) ==> pendIn(p0, T)))
// the same fact at explicit sets (used by the callers, whose pending sets are ground terms)
//@ lemma pendMono(p0 Program, S LabelSet, T LabelSet)
//@   ensures pendIn(p0, S) && forallk(l, p0.labels, S[l] ==> T[l]) ==> pendIn(p0, T)
// a program without conditional jumps has the structure trivially
//@ lemma neEmpty(p0 Program, S LabelSet)
//@   ensures len(p0.jumps) == 0 ==> ne(p0) && pendIn(p0, S) && noJumpAtEnd(p0)
// endBelow(I, J, m): the jump at the end of the program (if any) refers to labels below m only
//@ lemma endBelowJump(p0 Program, a int, b int, m int)
//@   ensures endJump(p0, a, b) && a < m && b < m ==> endBelow(p0.instructions, p0.jumps, m)
//@ lemma endBelowNone(p0 Program, m int)
//@   ensures noJumpAtEnd(p0) ==> endBelow(p0.instructions, p0.jumps, m)
//@ lemma hopeKeepBelow(p0 Program, l int)
//@   ensures endBelow(p0.instructions, p0.jumps, l) ==> hopeKeep(p0, l)
//@ lemma endBelowMono(p0 Program, m int, m2 int)
//@   ensures endBelow(p0.instructions, p0.jumps, m) && m <= m2 ==> endBelow(p0.instructions, p0.jumps, m2)
// ground label sets: the labels that may still be without a position between two builder calls of the compile path
//@ macro ls1(a) = store(emptyLabels, a, true)
//@ macro ls2(a, b) = store(store(emptyLabels, a, true), b, true)
//@ macro ls3(a, b, c) = store(store(store(emptyLabels, a, true), b, true), c, true)
//@ macro ls4(a, b, c, d) = store(store(store(store(emptyLabels, a, true), b, true), c, true), d, true)
//@ macro eb(p) = endBelow(p.instructions, p.jumps, p.nextLabel + 1)
// the ghost interpreter state describes the outcome of the label-level program built so far (spec/47_prefix.smt2)
//@ macro phi(p) = relG(p.G, p.labels, runP3(p.instructions, p.jumps, p.labels, 0, A0))

// jump k of the label-level program p0 is resolved in the instruction list R: same test, and each branch continues
// at the (moved) position of its label, or at a bridge to it
//@ func NewProgram() Program   properties C01 C03 C05 C06
//@   deterministic C13
//@   frame_props C13
//@   ensures @empty len(result.instructions) == 0 && len(result.jumps) == 0 && result.nextLabel == 1
//@   ensures @labels nonnil(result.labels) && card(result.labels) == 0
//@   ensures @ri {C06} ri(result)
//@   use riLink(result) at exit
//@   ensures @riS {C06} riS(result)

//@ func (p *Program) NewLabel() Label   properties C01 C02 C03 C06
//@   deterministic C13
//@   frame_props C13
//@   requires p != nil
//@   modifies p
//@   ensures @next result == old(p.nextLabel) + 1 && p.nextLabel == result
//@   ensures @frame p.G == old(p.G) && p.instructions == old(p.instructions) && p.jumps == old(p.jumps) && p.labels == old(p.labels)
//@   ensures @fresh fresh(old(p)) ==> fresh(p) && !g_taken(p.G)[result]
//@   ensures @ok {C05} p.R == old(p.R)
//@   ensures @ri {C06} ri(old(p)) ==> ri(p)
//@   ensures @phi {C06} phi(old(*p)) ==> phi(*p)
//@   use riLink(old(*p)) at exit
//@   use riLink(*p) at exit
//@   ensures @riS {C06} riS(old(*p)) ==> riS(*p)
//@   ensures @unplaced {C06} riS(old(*p)) ==> !has(p.labels, result)
//@   ensures @ne {C07!} (ne(old(*p)) ==> ne(*p)) && (noJumpAtEnd(old(*p)) ==> noJumpAtEnd(*p)) && forallk(a, p.labels, forallk(b, p.labels, endJump(old(*p), a, b) ==> endJump(*p, a, b)))
//@   ensures @pend {C07!} forallk(S, "(Array Int Bool)", pendIn(old(*p), S) ==> pendIn(*p, S))

//@ func (p *Program) currentIndex() Index   properties C06
//@   deterministic C13
//@   frame_props C13
//@   requires p != nil
//@   ensures result == len(p.instructions)

//@ func (p *Program) JmpIf(cond bpf.JumpTest, val uint32, trueLabel Label, falseLabel Label)   properties C01 C02 C03 C05 C06
//@   deterministic C13
//@   frame_props C13
//@   requires p != nil
//@   modifies p
//@   ghost p.G = stepJif(p.G, unbox(p.instructions[len(p.instructions)-1], bpf.JumpIf).Cond, unbox(p.instructions[len(p.instructions)-1], bpf.JumpIf).Val, p.jumps[len(p.jumps)-1].trueLabel, p.jumps[len(p.jumps)-1].falseLabel) at exit
//@   ensures @sem p.G == stepJif(old(p.G), cond, val, trueLabel, falseLabel)
//@   ensures @insn len(p.instructions) == len(old(p.instructions)) + 1 && istype(p.instructions[len(p.instructions)-1], bpf.JumpIf)
//@   ensures @frame p.nextLabel == old(p.nextLabel) && p.labels == old(p.labels)
//@   ensures @fresh fresh(old(p)) && trueLabel <= old(p.nextLabel) && falseLabel <= old(p.nextLabel) ==> fresh(p)
//@   ensures @ok {C05} p.R == old(p.R) && (ok(old(p)) && 0 <= cond && cond <= 7 ==> ok(p))
//@   ensures @ri {C06} ri(old(p)) ==> ri(p)
//@   use appendJif(old(*p), *p, 0, A0) when riS(old(*p)) at exit
//@   ensures @phi {C06} riS(old(*p)) && phi(old(*p)) ==> phi(*p)
//@   use riLink(old(*p)) at exit
//@   use riLink(*p) at exit
//@   ensures @riS {C06} riS(old(*p)) ==> riS(*p)
//@   ensures @ne {C07!} riS(old(*p)) && ne(old(*p)) && !has(old(p.labels), trueLabel) && !has(old(p.labels), falseLabel) ==> ne(*p) && endJump(*p, trueLabel, falseLabel)
//@   ensures @pend {C07!} forallk(S, "(Array Int Bool)", pendIn(old(*p), S) && S[trueLabel] && S[falseLabel] ==> pendIn(*p, S))
//@   ensures @pend2 {C07!} forallk(S, "(Array Int Bool)", pendIn(old(*p), S) && S[trueLabel] ==> pendIn(*p, store(S, falseLabel, true)))

//@ func (p *Program) SetLabel(label Label)   properties C01 C02 C03 C06
//@   deterministic C13
//@   frame_props C13
//@   requires p != nil && nonnil(p.labels)
//@   modifies p
//@   ghost p.G = stepMark(p.G, label) at exit
//@   ensures @sem p.G == stepMark(old(p.G), label)
//@   ensures @frame p.nextLabel == old(p.nextLabel) && p.instructions == old(p.instructions) && p.jumps == old(p.jumps) && nonnil(p.labels)
//@   ensures @fresh fresh(old(p)) ==> fresh(p)
//@   ensures @ok {C05} p.R == old(p.R)
//@   ensures @ri {C06} ri(old(p)) && label <= old(p.nextLabel) ==> ri(p)
//@   use placeLabel(old(*p), *p, label, 0, A0) when riS(old(*p)) && !has(old(p.labels), label) at exit
//@   ensures @phi {C06} riS(old(*p)) && phi(old(*p)) && !has(old(p.labels), label) ==> phi(*p)
//@   ensures @has {C06} forallk(l, p.labels, has(p.labels, l) == (has(old(p.labels), l) || l == label))
//@   use riLink(old(*p)) at exit
//@   use riLink(*p) at exit
//@   ensures @riS {C06} riS(old(*p)) && label <= old(p.nextLabel) ==> riS(*p)
//@   ensures @ne {C07!} riS(old(*p)) && ne(old(*p)) && !has(old(p.labels), label) && hopeKeep(old(*p), label) ==> ne(*p)
//@   ensures @pend {C07!} forallk(S, "(Array Int Bool)", pendIn(old(*p), S) ==> pendIn(*p, store(S, label, false)))
//@   ensures @endframe {C07!} (noJumpAtEnd(old(*p)) ==> noJumpAtEnd(*p)) && forallk(a, p.labels, forallk(b, p.labels, endJump(old(*p), a, b) ==> endJump(*p, a, b)))

//@ func (p *Program) JmpIfTrue(cond bpf.JumpTest, val uint32, trueLabel Label)   properties C01 C02 C03 C05 C06
//@   deterministic C13
//@   frame_props C13
//@   requires p != nil && nonnil(p.labels)
//@   modifies p
//@   ensures @sem p.G == stepMark(stepJif(old(p.G), cond, val, trueLabel, old(p.nextLabel) + 1), old(p.nextLabel) + 1)
//@   ensures @frame p.nextLabel == old(p.nextLabel) + 1 && nonnil(p.labels)
//@   ensures @insn len(p.instructions) == len(old(p.instructions)) + 1
//@   ensures @fresh fresh(old(p)) && trueLabel <= old(p.nextLabel) ==> fresh(p) && !g_taken(old(p.G))[old(p.nextLabel) + 1]
//@   ensures @ok {C05} p.R == old(p.R) && (ok(old(p)) && 0 <= cond && cond <= 7 ==> ok(p))
//@   ensures @ri {C06} ri(old(p)) ==> ri(p)
//@   ensures @phi {C06} riS(old(*p)) && phi(old(*p)) ==> phi(*p)
//@   ensures @has {C06} forallk(l, p.labels, has(p.labels, l) == (has(old(p.labels), l) || l == old(p.nextLabel) + 1))
//@   use riLink(old(*p)) at exit
//@   use riLink(*p) at exit
//@   ensures @riS {C06} riS(old(*p)) ==> riS(*p)
//@   use hopeKeepEnd(*p, label, trueLabel, label) at before call Program.SetLabel#1
//@   use pendExt(*p) at before call Program.JmpIf#1
//@   use pendExt(*p) at exit
//@   ensures @ne {C07!} riS(old(*p)) && ne(old(*p)) && !has(old(p.labels), trueLabel) && trueLabel <= old(p.nextLabel) ==> ne(*p) && endJump(*p, trueLabel, old(p.nextLabel) + 1)
//@   ensures @pend {C07!} forallk(S, "(Array Int Bool)", pendIn(old(*p), S) && S[trueLabel] ==> pendIn(*p, S))

//@ func (p *Program) Ret(action Action)   properties C01 C05 C06
//@   deterministic C13
//@   frame_props C13
//@   requires p != nil
//@   modifies p
//@   ghost p.G = stepRet(p.G, unbox(p.instructions[len(p.instructions)-1], bpf.RetConstant).Val) at exit
//@   ensures @sem {C01} p.G == stepRet(old(p.G), enc(action))
//@   ensures @insn len(p.instructions) == len(old(p.instructions)) + 1 && isRetOf(p.instructions[len(p.instructions)-1], enc(action))
//@   ensures @frame p.nextLabel == old(p.nextLabel) && p.labels == old(p.labels) && p.jumps == old(p.jumps)
//@   ensures @fresh fresh(old(p)) ==> fresh(p)
//@   ghost p.R = addRet(p.R, unbox(p.instructions[len(p.instructions)-1], bpf.RetConstant).Val) at exit
//@   ensures @ok {C05} p.R == addRet(old(p.R), enc(action)) && (ok(old(p)) ==> ok(p))
//@   ensures @ri {C06} ri(old(p)) ==> ri(p)
//@   use appendPlain(old(*p), *p, 0, A0) when riS(old(*p)) at exit
//@   ensures @phi {C06} riS(old(*p)) && phi(old(*p)) ==> phi(*p)
//@   use riLink(old(*p)) at exit
//@   use riLink(*p) at exit
//@   ensures @riS {C06} riS(old(*p)) ==> riS(*p)
//@   ensures @ne {C07!} riS(old(*p)) && ne(old(*p)) ==> ne(*p) && noJumpAtEnd(*p)
//@   ensures @pend {C07!} forallk(S, "(Array Int Bool)", pendIn(old(*p), S) ==> pendIn(*p, S))

//@ func (p *Program) LdHi(arg uint32)   properties C02 C05
//@   deterministic C13
//@   frame_props C13
//@   requires p != nil
//@   requires @arg_le_5 arg <= 5
//@   modifies p
//@   ghost p.G = stepLd(p.G, unbox(p.instructions[len(p.instructions)-1], bpf.LoadAbsolute).Off) at exit
//@   ensures @sem {C02} p.G == mkG(g_live(old(p.G)), ite(g_live(old(p.G)), hi64(ev_args(ev)[arg]), g_A(old(p.G))), g_done(old(p.G)), g_rval(old(p.G)), g_taken(old(p.G)), g_tA(old(p.G)))
//@   ensures @insn {C05} len(p.instructions) == len(old(p.instructions)) + 1 && validLoad(p.instructions[len(p.instructions)-1])
//@   ensures @frame p.nextLabel == old(p.nextLabel) && p.labels == old(p.labels) && p.jumps == old(p.jumps)
//@   ensures @fresh fresh(old(p)) ==> fresh(p)
//@   ensures @ok {C05} p.R == old(p.R) && (ok(old(p)) ==> ok(p))
//@   ensures @ri {C06} ri(old(p)) ==> ri(p)
//@   use appendPlain(old(*p), *p, 0, A0) when riS(old(*p)) at exit
//@   ensures @phi {C06} riS(old(*p)) && phi(old(*p)) ==> phi(*p)
//@   use riLink(old(*p)) at exit
//@   use riLink(*p) at exit
//@   ensures @riS {C06} riS(old(*p)) ==> riS(*p)
//@   ensures @ne {C07!} riS(old(*p)) && ne(old(*p)) ==> ne(*p) && noJumpAtEnd(*p)
//@   ensures @pend {C07!} forallk(S, "(Array Int Bool)", pendIn(old(*p), S) ==> pendIn(*p, S))

//@ func (p *Program) ldSyscallNum()   properties C03 C05
//@   deterministic C13
//@   frame_props C13
//@   requires p != nil
//@   modifies p
//@   ghost p.G = stepLd(p.G, unbox(p.instructions[len(p.instructions)-1], bpf.LoadAbsolute).Off) at exit
//@   ensures @sem {C03} p.G == mkG(g_live(old(p.G)), ite(g_live(old(p.G)), ev_nr(ev), g_A(old(p.G))), g_done(old(p.G)), g_rval(old(p.G)), g_taken(old(p.G)), g_tA(old(p.G)))
//@   ensures @insn {C05} len(p.instructions) == len(old(p.instructions)) + 1 && validLoad(p.instructions[len(p.instructions)-1])
//@   ensures @frame p.nextLabel == old(p.nextLabel) && p.labels == old(p.labels) && p.jumps == old(p.jumps)
//@   ensures @fresh fresh(old(p)) ==> fresh(p)
//@   ensures @ok {C05} p.R == old(p.R) && (ok(old(p)) ==> ok(p))
//@   ensures @ri {C06} ri(old(p)) ==> ri(p)
//@   use appendPlain(old(*p), *p, 0, A0) when riS(old(*p)) at exit
//@   ensures @phi {C06} riS(old(*p)) && phi(old(*p)) ==> phi(*p)
//@   use riLink(old(*p)) at exit
//@   use riLink(*p) at exit
//@   ensures @riS {C06} riS(old(*p)) ==> riS(*p)
//@   ensures @ne {C07!} riS(old(*p)) && ne(old(*p)) ==> ne(*p) && noJumpAtEnd(*p)
//@   ensures @pend {C07!} forallk(S, "(Array Int Bool)", pendIn(old(*p), S) ==> pendIn(*p, S))

//@ func (p *Program) LdLo(arg uint32)   properties C02 C05
//@   deterministic C13
//@   frame_props C13
//@   requires p != nil
//@   requires @arg_le_5 arg <= 5
//@   modifies p
//@   ghost p.G = stepLd(p.G, unbox(p.instructions[len(p.instructions)-1], bpf.LoadAbsolute).Off) at exit
//@   ensures @sem {C02} p.G == mkG(g_live(old(p.G)), ite(g_live(old(p.G)), lo64(ev_args(ev)[arg]), g_A(old(p.G))), g_done(old(p.G)), g_rval(old(p.G)), g_taken(old(p.G)), g_tA(old(p.G)))
//@   ensures @insn {C05} len(p.instructions) == len(old(p.instructions)) + 1 && validLoad(p.instructions[len(p.instructions)-1])
//@   ensures @frame p.nextLabel == old(p.nextLabel) && p.labels == old(p.labels) && p.jumps == old(p.jumps)
//@   ensures @fresh fresh(old(p)) ==> fresh(p)
//@   ensures @ok {C05} p.R == old(p.R) && (ok(old(p)) ==> ok(p))
//@   ensures @ri {C06} ri(old(p)) ==> ri(p)
//@   use appendPlain(old(*p), *p, 0, A0) when riS(old(*p)) at exit
//@   ensures @phi {C06} riS(old(*p)) && phi(old(*p)) ==> phi(*p)
//@   use riLink(old(*p)) at exit
//@   use riLink(*p) at exit
//@   ensures @riS {C06} riS(old(*p)) ==> riS(*p)
//@   ensures @ne {C07!} riS(old(*p)) && ne(old(*p)) ==> ne(*p) && noJumpAtEnd(*p)
//@   ensures @pend {C07!} forallk(S, "(Array Int Bool)", pendIn(old(*p), S) ==> pendIn(*p, S))

// nativeEndian is assigned once by init() (not verified: unsafe); it is one of the two orders.
//@ global nativeEndian immutable
//@ axiom @endian (nativeEndian == binary.LittleEndian) == le && (nativeEndian == binary.BigEndian) == !le

// ---------------------------------------------------------------------------
// Layer P: policy compilation (filter.go)
// ---------------------------------------------------------------------------

// allHold: every condition of the list is satisfied by the ghost event (C02/C03: unsigned 64-bit relations of spec/policy.smt2)
//@ macro allHoldUpTo(list, n) = forall(q_, 0, n, holds(list[q_], ev))
// anyList: one of the first k condition lists of entry s is satisfied
//@ macro anyList(s, k) = exists(j_, 0, k, allHoldUpTo(s.Conditions[j_], len(s.Conditions[j_])))
//@ macro entryMatches(s) = (ev_nr(ev) == s.Num && (len(s.Conditions) == 0 || anyList(s, len(s.Conditions))))
// semValid: what C03/C07 assume of a conditional entry (>= 1 condition per list, implemented operations)
//@ macro semValid(s) = forall(a_, 0, len(s.Conditions), len(s.Conditions[a_]) >= 1 && forall(b_, 0, len(s.Conditions[a_]), knownOp(s.Conditions[a_][b_].Operation)))
//@ macro argsValid(s) = forall(a_, 0, len(s.Conditions), forall(b_, 0, len(s.Conditions[a_]), s.Conditions[a_][b_].Argument <= 5))

// Quantifier bookkeeping, proved once and instantiated explicitly (so that the compile-path obligations are ground).
//@ lemma allHoldZero(list []Condition)
//@   ensures allHoldUpTo(list, 0)
//@ lemma allHoldStep(list []Condition, i int, c Condition)
//@   requires 0 <= i && i < len(list) && c == list[i]
//@   ensures allHoldUpTo(list, i+1) == (allHoldUpTo(list, i) && holds(c, ev))
//@ lemma anyListZero(s SyscallWithConditions)
//@   ensures !anyList(s, 0)
//@ lemma anyListStep(s SyscallWithConditions, k int, list []Condition, n int)
//@   requires 0 <= k && k < len(s.Conditions) && list == s.Conditions[k] && n == len(list)
//@   ensures anyList(s, k+1) == (anyList(s, k) || allHoldUpTo(list, n))
//@ lemma semInst(s SyscallWithConditions, k int, list []Condition, i int, c Condition)
//@   requires 0 <= k && k < len(s.Conditions) && list == s.Conditions[k] && 0 <= i && i < len(list) && c == list[i]
//@   ensures semValid(s) ==> len(list) >= 1 && knownOp(c.Operation)
//@ lemma semInstList(s SyscallWithConditions, k int, list []Condition)
//@   requires 0 <= k && k < len(s.Conditions) && list == s.Conditions[k]
//@   ensures semValid(s) ==> len(list) >= 1
//@ lemma argsInst(s SyscallWithConditions, k int, list []Condition, i int, c Condition)
//@   requires argsValid(s) && 0 <= k && k < len(s.Conditions) && list == s.Conditions[k] && 0 <= i && i < len(list) && c == list[i]
//@   ensures c.Argument <= 5

//@ func (s SyscallWithConditions) Assemble(p *Program, action Label)   properties C02 C03 C05 C07
//@   deterministic C13
//@   frame_props C13
//@   requires p != nil && nonnil(p.labels)
//@   requires 1 <= action && action <= p.nextLabel
//@   requires fresh(p)
//@   requires @args_valid argsValid(s)
//@   modifies p
//@   opaque riS
//@   let G0 = p.G
//@   let N0 = p.nextLabel
//@   let hdr = ev_nr(ev) == s.Num
//@   let pre = g_live(p.G) && g_A(p.G) == ev_nr(ev)
//@   let sem = semValid(s)
//@   let n = len(s.Conditions)
//@   ensures @live {C03} pre && sem ==> g_live(p.G) == !(hdr && (n == 0 || anyList(s, n)))
//@   ensures @taken_action {C03} pre && sem ==> g_taken(p.G)[action] == (g_taken(G0)[action] || (hdr && (n == 0 || anyList(s, n))))
//@   ensures @no_leak {C03} pre && sem && g_live(p.G) ==> g_A(p.G) == ev_nr(ev)
//@   ensures @dead !g_live(G0) ==> !g_live(p.G) && g_taken(p.G)[action] == g_taken(G0)[action]
//@   ensures @done g_done(p.G) == g_done(G0) && g_rval(p.G) == g_rval(G0)
//@   ensures @fresh fresh(p) && p.nextLabel >= N0 && nonnil(p.labels)
//@   ensures @ok {C05} p.R == old(p.R) && (ok(old(p)) ==> ok(p))
//@   ensures @ri {C06} riS(old(*p)) ==> riS(*p)
//@   let P0 = riS(*p) && phi(*p) && !has(p.labels, action)
//@   ensures @phi {C06} P0 ==> phi(*p) && !has(p.labels, action)
//@   let R0 = p.R
//@   let ok0 = ok(p)
// C07 (d): the structure that makes label resolution succeed is maintained (for entries with implemented operations
// and non-empty lists); the labels still without a position are action / nextSyscall / noMatch / nextArgument
//@   opaque fwdOK hopeOK pendIn endJump noJumpAtEnd hopeKeep endBelow
//@   let NE0 = riS(*p) && ne(*p) && !has(p.labels, action) && pendIn(*p, ls1(action)) && eb(p)
//@   ensures @ne {C07!} NE0 && sem ==> ne(*p) && !has(p.labels, action) && pendIn(*p, ls1(action)) && eb(p)
//@   use pendMono(*p, ls1(action), ls2(action, nextSyscall)) at after assign nextSyscall#1
// after every JmpIfTrue the jump at the end refers to the label it was given and to the label just created
//@   use endBelowJump(*p, call.arg2, p.nextLabel, p.nextLabel + 1) at after call Program.JmpIfTrue#*
//@   use pendMono(*p, ls2(action, nextSyscall), ls3(action, nextSyscall, noMatch)) at before loop 2
//@   use endBelowMono(*p, noMatch, p.nextLabel + 1) at before loop 2
//@   use pendMono(*p, ls3(action, nextSyscall, noMatch), ls4(action, nextSyscall, noMatch, nextArgument)) at after assign nextArgument#1
//@   use endBelowMono(*p, nextArgument, p.nextLabel + 1) at after assign nextArgument#1
//@   use hopeKeepEnd(*p, nextArgument, match, noMatch) at before call Program.SetLabel#1
//@   use endBelowJump(*p, match, noMatch, p.nextLabel + 1) at loop 2 end
//@   use pendMono(*p, store(ls4(action, nextSyscall, noMatch, nextArgument), nextArgument, false), ls3(action, nextSyscall, noMatch)) at loop 2 end
//@   use hopeKeepEnd(*p, noMatch, action, noMatch) at after loop 2
//@   use endBelowJump(*p, action, noMatch, p.nextLabel + 1) at loop 1 end
//@   use pendMono(*p, store(ls3(action, nextSyscall, noMatch), noMatch, false), ls2(action, nextSyscall)) at loop 1 end
//@   use hopeKeepNoJump(*p, nextSyscall) at before call Program.SetLabel#3
//@   use endBelowNone(*p, p.nextLabel + 1) at exit
//@   use pendMono(*p, store(ls2(action, nextSyscall), nextSyscall, false), ls1(action)) at exit
//@   use anyListZero(s) at before loop 1
//@   use semInstList(s, k, conditions) at loop 1 body
//@   use allHoldZero(conditions) at before loop 2
//@   use argsInst(s, k, conditions, i, c) at loop 2 body
//@   use semInst(s, k, conditions, i, c) at loop 2 body
//@   use allHoldStep(conditions, i, c) at loop 2 end
//@   use anyListStep(s, k, conditions, i) at after loop 2
//@   loop 1 binder k match range s.Conditions
//@     invariant @struct p != nil && nonnil(p.labels) && p.nextLabel >= N0 + 2 && nextSyscall == N0 + 1
//@     invariant @ok {C05} p.R == R0 && (ok0 ==> ok(p))
//@     invariant @ri {C06} riS(old(*p)) ==> riS(*p)
//@     invariant @phi {C06} P0 ==> phi(*p) && !has(p.labels, action) && !has(p.labels, nextSyscall)
//@     invariant @fresh fresh(p)
//@     invariant @done g_done(p.G) == g_done(G0) && g_rval(p.G) == g_rval(G0)
//@     invariant @sem {C03} pre && sem ==> (g_taken(p.G)[action] == (g_taken(G0)[action] || (hdr && anyList(s, k))) && g_taken(p.G)[nextSyscall] == !hdr && g_live(p.G) == (hdr && !anyList(s, k)))
//@     invariant @dead !g_live(G0) ==> !g_live(p.G) && g_taken(p.G)[action] == g_taken(G0)[action] && !g_taken(p.G)[nextSyscall]
//@     invariant @next_A {C03} pre && g_taken(p.G)[nextSyscall] ==> g_tA(p.G)[nextSyscall] == ev_nr(ev)
//@     invariant @ne {C07!} NE0 && sem ==> ne(*p) && !has(p.labels, action) && !has(p.labels, nextSyscall) && pendIn(*p, ls2(action, nextSyscall)) && eb(p)
//@   loop 2 binder i match range conditions
//@     invariant @struct p != nil && nonnil(p.labels) && p.nextLabel >= noMatch && noMatch >= N0 + 3
//@     invariant @ok {C05} p.R == R0 && (ok0 ==> ok(p))
//@     invariant @ri {C06} riS(old(*p)) ==> riS(*p)
//@     invariant @phi {C06} P0 ==> phi(*p) && !has(p.labels, action) && !has(p.labels, nextSyscall) && !has(p.labels, noMatch)
//@     invariant @fresh fresh(p)
//@     invariant @done g_done(p.G) == g_done(G0) && g_rval(p.G) == g_rval(G0)
//@     invariant @live {C02 C03} pre && sem ==> g_live(p.G) == (hdr && !anyList(s, k) && allHoldUpTo(conditions, i) && i < len(conditions))
//@     invariant @nomatch {C02 C03} pre && sem ==> g_taken(p.G)[noMatch] == (hdr && !anyList(s, k) && !allHoldUpTo(conditions, i))
//@     invariant @action {C02 C03} pre && sem ==> g_taken(p.G)[action] == (g_taken(G0)[action] || (hdr && anyList(s, k)) || (hdr && !anyList(s, k) && i == len(conditions) && allHoldUpTo(conditions, i)))
//@     invariant @next pre && sem ==> g_taken(p.G)[nextSyscall] == !hdr
//@     invariant @next_A {C03} pre && g_taken(p.G)[nextSyscall] ==> g_tA(p.G)[nextSyscall] == ev_nr(ev)
//@     invariant @dead !g_live(G0) ==> !g_live(p.G) && g_taken(p.G)[action] == g_taken(G0)[action] && !g_taken(p.G)[nextSyscall] && !g_taken(p.G)[noMatch]
//@     invariant @ne {C07!} NE0 && sem ==> ne(*p) && !has(p.labels, action) && !has(p.labels, nextSyscall) && !has(p.labels, noMatch)
//@     invariant @ne_pend {C07!} NE0 && sem ==> pendIn(*p, ls3(action, nextSyscall, noMatch))
//@     invariant @ne_eb {C07!} NE0 && sem ==> eb(p)
//@     invariant @ne_end {C07!} NE0 && sem ==> (i == 0 ==> endBelow(p.instructions, p.jumps, noMatch)) && (i >= 1 && i == len(conditions) ==> endJump(*p, action, noMatch))

// ---- names -> numbers, validation (C01 C03 C07) ----

//@ func (o Operation) isValid() bool   properties C07
//@   deterministic C13
//@   frame_props C13
//@   ensures @known result == knownOp(o)
//@   loop 1 binder k match range Operations
//@     invariant @none forall(j, 0, k, Operations[j] != o)
//@     invariant @len len(Operations) == 8 && Operations[0] == "Equal" && Operations[1] == "NotEqual" && Operations[2] == "GreaterThan" && Operations[3] == "LessThan" && Operations[4] == "GreaterOrEqual" && Operations[5] == "LessOrEqual" && Operations[6] == "BitsSet" && Operations[7] == "BitsNotSet"

//@ macro condOK(c) = (c.Argument <= 5 && knownOp(c.Operation))
//@ macro num32(g, name) = uint32(g.arch.SyscallNames[name] | g.arch.SeccompMask)
//@ macro known(g, name) = has(g.arch.SyscallNames, name)
//@ macro entryMatchesE(x) = (ev_nr(ev) == x.Num && (len(x.Conditions) == 0 || anyList(x, len(x.Conditions))))
//@ macro anyEntry(sc, n) = exists(e_, 0, n, entryMatchesE(sc[e_]))
//@ macro namesMatchUpTo(g, k) = exists(i_, 0, k, known(g, g.Names[i_]) && num32(g, g.Names[i_]) == ev_nr(ev))
//@ macro nwcMatchUpTo(g, k) = exists(i_, 0, k, known(g, g.NamesWithCondtions[i_].Name) && num32(g, g.NamesWithCondtions[i_].Name) == ev_nr(ev) && allHoldUpTo(g.NamesWithCondtions[i_].Conditions, len(g.NamesWithCondtions[i_].Conditions)))
//@ macro groupMatches(g) = (namesMatchUpTo(g, len(g.Names)) || nwcMatchUpTo(g, len(g.NamesWithCondtions)))
// what C03/C07 assume of a group: every conditional entry carries at least one condition
//@ macro groupListsNonEmpty(g) = forall(i_, 0, len(g.NamesWithCondtions), len(g.NamesWithCondtions[i_].Conditions) >= 1)
//@ macro entriesValid(sc, n) = forall(e_, 0, n, argsValid(sc[e_]) && forall(a_, 0, len(sc[e_].Conditions), forall(b_, 0, len(sc[e_].Conditions[a_]), knownOp(sc[e_].Conditions[a_][b_].Operation))))
//@ macro entriesNonEmptyLists(sc, n) = forall(e_, 0, n, forall(a_, 0, len(sc[e_].Conditions), len(sc[e_].Conditions[a_]) >= 1))

// Validate (after the fix: argument index and operation are both checked)
//@ func (a ArgumentConditions) Validate() []string   properties C05 C07
//@   deterministic C13
//@   frame_props C13
//@   ensures @len_iff {C07} (len(result) == 0) == forall(i, 0, len(a), condOK(a[i]))
//@   ensures @fresh own(result)
//@   loop 1 binder k match range a
//@     invariant @problems_iff (len(problems) == 0) == forall(i, 0, k, condOK(a[i]))
//@     invariant @own own(problems)

//@ lemma anyEntryZero(sc []SyscallWithConditions)
//@   ensures !anyEntry(sc, 0)
//@ lemma anyEntryAppend(sc []SyscallWithConditions, sc2 []SyscallWithConditions, x SyscallWithConditions)
//@   ensures len(sc2) == len(sc) + 1 && forall(j, 0, len(sc), sc2[j] == sc[j]) && sc2[len(sc)] == x && len(sc) >= 0 ==> anyEntry(sc2, len(sc2)) == (anyEntry(sc, len(sc)) || entryMatchesE(x))
//@ lemma anyListSingle(x SyscallWithConditions, conds []Condition)
//@   ensures len(x.Conditions) == 1 && x.Conditions[0] == conds ==> anyList(x, len(x.Conditions)) == allHoldUpTo(conds, len(conds))
//@ lemma anyEntryMerge(sc []SyscallWithConditions, sc2 []SyscallWithConditions, idx int, conds []Condition)
//@   ensures 0 <= idx && idx < len(sc) && len(sc2) == len(sc) && forall(j, 0, len(sc), j != idx ==> sc2[j] == sc[j]) && sc2[idx].Num == sc[idx].Num && len(sc[idx].Conditions) >= 1 && len(sc2[idx].Conditions) == len(sc[idx].Conditions) + 1 && forall(j, 0, len(sc[idx].Conditions), sc2[idx].Conditions[j] == sc[idx].Conditions[j]) && sc2[idx].Conditions[len(sc[idx].Conditions)] == conds ==> anyEntry(sc2, len(sc2)) == (anyEntry(sc, len(sc)) || (ev_nr(ev) == sc[idx].Num && allHoldUpTo(conds, len(conds))))
//@ lemma namesStep(g *SyscallGroup, k int, name string)
//@   requires g != nil && 0 <= k && k < len(g.Names) && name == g.Names[k]
//@   ensures namesMatchUpTo(g, k+1) == (namesMatchUpTo(g, k) || (known(g, name) && num32(g, name) == ev_nr(ev)))
//@ lemma namesZero(g *SyscallGroup)
//@   requires g != nil
//@   ensures !namesMatchUpTo(g, 0) && !nwcMatchUpTo(g, 0)
//@ lemma nwcStep(g *SyscallGroup, k int, nc NameWithConditions)
//@   requires g != nil && 0 <= k && k < len(g.NamesWithCondtions) && nc == g.NamesWithCondtions[k]
//@   ensures nwcMatchUpTo(g, k+1) == (nwcMatchUpTo(g, k) || (known(g, nc.Name) && num32(g, nc.Name) == ev_nr(ev) && allHoldUpTo(nc.Conditions, len(nc.Conditions))))

//@ macro namesKnownUpTo(g, k) = forall(i_, 0, k, known(g, g.Names[i_]))
//@ macro namesDistinctUpTo(g, k) = forall(i_, 0, k, forall(h_, 0, i_, g.Names[h_] != g.Names[i_]))
//@ macro namesReprUpTo(g, sc, k) = forall(i_, 0, k, exists(e_, 0, len(sc), sc[e_].Num == num32(g, g.Names[i_]) && len(sc[e_].Conditions) == 0))
//@ macro numsDistinct(sc) = forall(e_, 0, len(sc), forall(f_, 0, e_, sc[f_].Num != sc[e_].Num))
//@ macro nwcOKUpTo(g, k) = forall(i_, 0, k, known(g, g.NamesWithCondtions[i_].Name) && forall(b_, 0, len(g.NamesWithCondtions[i_].Conditions), condOK(g.NamesWithCondtions[i_].Conditions[b_])) && forall(h_, 0, len(g.Names), g.Names[h_] != g.NamesWithCondtions[i_].Name))
//@ macro listOK(l) = forall(b_, 0, len(l), condOK(l[b_]))
//@ macro entryOK(x) = forall(a_, 0, len(x.Conditions), listOK(x.Conditions[a_]))
//@ macro entriesOK(sc) = forall(e_, 0, len(sc), entryOK(sc[e_]))
//@ macro entryListsNonEmpty(x) = forall(a_, 0, len(x.Conditions), len(x.Conditions[a_]) >= 1)
//@ macro entriesListsNonEmpty(sc) = forall(e_, 0, len(sc), entryListsNonEmpty(sc[e_]))
//@ macro nwcNonEmptyUpTo(g, k) = forall(i_, 0, k, len(g.NamesWithCondtions[i_].Conditions) >= 1)

// C07 (d): instance of infoInj at the names of the group
//@ lemma infoInjNames(g *SyscallGroup, k int, name string)
//@   requires g != nil && g.arch != nil
//@   ensures infoInj(*g.arch) && known(g, name) ==> forall(i_, 0, k, known(g, g.Names[i_]) && num32(g, g.Names[i_]) == num32(g, name) ==> g.Names[i_] == name, trig(g.Names[i_]))
//@ macro entriesFromNames(g, sc, k) = entriesFromNamesS(*g.arch, g.Names, sc, k)
//@ macro uncondFromNames(g, sc) = uncondFromNamesS(*g.arch, g.Names, sc)
//@ macro groupValidM(g) = namesKnownUpTo(g, len(g.Names)) && namesDistinctUpTo(g, len(g.Names)) && nwcOKUpTo(g, len(g.NamesWithCondtions))
//@ func (g *SyscallGroup) toSyscallsWithConditions() ([]SyscallWithConditions, error)   properties C01 C03 C05 C07
//@   deterministic C13
//@   frame_props C13
//@   requires g != nil && g.arch != nil
//@   ensures @err_nil_result {C07} result1 != nil ==> len(result0) == 0
//@   ensures @semantics {C01 C03} result1 == nil ==> anyEntry(result0, len(result0)) == groupMatches(g)
//@   ensures @fresh own(result0)
//@   ensures @c07_names {C07} result1 == nil ==> namesKnownUpTo(g, len(g.Names))
//@   ensures @c07_dups {C07} result1 == nil ==> namesDistinctUpTo(g, len(g.Names))
//@   ensures @c07_nwc {C07} result1 == nil ==> nwcOKUpTo(g, len(g.NamesWithCondtions))
//@   ensures @entries_ok {C05 C07} result1 == nil ==> entriesOK(result0)
//@   ensures @lists_nonempty {C03} result1 == nil && nwcNonEmptyUpTo(g, len(g.NamesWithCondtions)) ==> entriesListsNonEmpty(result0)
//@   ensures @accepted {C07!} groupValidM(g) && infoInj(*g.arch) ==> result1 == nil
//@   opaque infoInj
//@   opaque entriesFromNamesS uncondFromNamesS except from_names uncond_from_names noprob
//@   use infoInjNames(g, k1, name) at loop 1 body
//@   use infoInjNames(g, len(g.Names), nc.Name) at loop 2 body
//@   use namesZero(g) at entry
//@   use anyEntryZero(syscalls) at before loop 1
//@   use namesStep(g, k1, name) at loop 1 body
//@   use nwcStep(g, k2, nc) at loop 2 body
//@   ghost let sc0 = syscalls at loop 2 body
//@   use anyEntryAppend(sc0, syscalls, syscalls[len(sc0)]) at loop 2 end
//@   use anyListSingle(syscalls[len(sc0)], nc.Conditions) at loop 2 end
//@   use anyEntryMerge(sc0, syscalls, idx(check), nc.Conditions) at loop 2 end
//@   loop 1 binder k1 match range g.Names
//@     invariant @own own(syscalls) && own(problems) && forall(j, 0, len(syscalls), own(syscalls[j].Conditions))
//@     invariant @uncond forall(j, 0, len(syscalls), len(syscalls[j].Conditions) == 0)
//@     invariant @sem {C01 C03} len(problems) == 0 ==> anyEntry(syscalls, len(syscalls)) == namesMatchUpTo(g, k1)
//@     invariant @known {C07} len(problems) == 0 ==> namesKnownUpTo(g, k1)
//@     invariant @repr {C07} len(problems) == 0 ==> namesReprUpTo(g, syscalls, k1)
//@     invariant @dups {C07} len(problems) == 0 ==> namesDistinctUpTo(g, k1)
//@     invariant @nums {C07} numsDistinct(syscalls)
//@     invariant @from_names {C07!} entriesFromNames(g, syscalls, k1)
//@     invariant @noprob {C07!} groupValidM(g) && infoInj(*g.arch) ==> len(problems) == 0
//@   loop 2 binder k2 match range g.NamesWithCondtions
//@     invariant @own own(syscalls) && own(problems) && forall(j, 0, len(syscalls), own(syscalls[j].Conditions))
//@     invariant @sem {C01 C03} len(problems) == 0 ==> anyEntry(syscalls, len(syscalls)) == (namesMatchUpTo(g, len(g.Names)) || nwcMatchUpTo(g, k2))
//@     invariant @names {C07} len(problems) == 0 ==> namesKnownUpTo(g, len(g.Names)) && namesDistinctUpTo(g, len(g.Names))
//@     invariant @repr {C07} len(problems) == 0 ==> namesReprUpTo(g, syscalls, len(g.Names))
//@     invariant @nums {C07} numsDistinct(syscalls)
//@     invariant @nwc {C07} len(problems) == 0 ==> nwcOKUpTo(g, k2)
//@     invariant @entries_ok {C05 C07} entriesOK(syscalls)
//@     invariant @lists_nonempty {C03} nwcNonEmptyUpTo(g, k2) ==> entriesListsNonEmpty(syscalls)
//@     invariant @uncond_from_names {C07!} uncondFromNames(g, syscalls)
//@     invariant @noprob {C07!} groupValidM(g) && infoInj(*g.arch) ==> len(problems) == 0

// ---- group and policy assembly (C01 C03 C04 C05 C07) ----

// ---------------------------------------------------------------------------
// Layer A: label resolution (assembler.go), property C06.
// Ghost state: ghost.apos maps an index of the label-level program (the Program at entry of Assemble)
// to the index of the same instruction now; ghost.mt / ghost.mf record, per jump, which position of its
// true / false label is its destination.
// ---------------------------------------------------------------------------
//@ global apos ghost:(Array Int Int)
//@ global mt ghost:(Array Int Int)
//@ global mf ghost:(Array Int Int)
// the caller of insertBridge names the position of the label that is the destination
//@ global wm ghost:Int

//@ macro sh(v, a) = ite(v >= a, v + 1, v)
//@ macro jumpsShifted(J1, J0, a) = len(J1) == len(J0) && forall(k, 0, len(J1), J1[k].index == sh(J0[k].index, a) && J1[k].trueLabel == J0[k].trueLabel && J1[k].falseLabel == J0[k].falseLabel)
//@ macro labelsShifted(L1, L0, a) = nonnil(L1) == nonnil(L0) && forallk(l, L1, has(L1, l) == has(L0, l) && len(L1[l]) == len(L0[l]) && forall(m, 0, len(L1[l]), L1[l][m] == sh(L0[l][m], a)))

//@ func (p *Program) destination(jump JumpIf, label Label) (Index, error)   properties C06
//@   deterministic C13
//@   frame_props C13
//@   requires p != nil
//@   let s = p.labels[label]
//@   let m = firstIdxAbove(s, jump.index, 0)
//@   ensures @found result1 == nil ==> isFirstAbove(s, jump.index, m) && result0 == s[m]
//@   ensures @none result1 != nil ==> forall(j, 0, len(s), s[j] <= jump.index) && result0 == 0
//@   loop 1 binder k match range p.labels[label]
//@     invariant @scan firstIdxAbove(s, jump.index, 0) == firstIdxAbove(s, jump.index, k) && forall(j, 0, k, s[j] <= jump.index)

//@ func (p *Program) computeSkipN(jump JumpIf, label Label) (int, error)   properties C06
//@   deterministic C13
//@   frame_props C13
//@   requires p != nil
//@   requires @index jump.index >= 0
//@   let s = p.labels[label]
//@   let m = firstIdxAbove(s, jump.index, 0)
//@   ensures @found result1 == nil ==> isFirstAbove(s, jump.index, m) && result0 == s[m] - jump.index - 1 && result0 >= 0
//@   ensures @none result1 != nil ==> forall(j, 0, len(s), s[j] <= jump.index)

// every recorded index is at most n
//@ macro idxBelow(p, n) = forall(k, 0, len(p.jumps), p.jumps[k].index < n) && forallk(l, p.labels, forall(m, 0, len(p.labels[l]), p.labels[l][m] < n))
//@ func (p *Program) updateIndices(after Index)   properties C06
//@   deterministic C13
//@   frame_props C13
//@   determined
//@   requires p != nil
//@   requires @bounded idxBelow(p, len(p.instructions))
//@   modifies p, ghost.apos
//@   ghost ghost.apos = shiftArr(ghost.apos, after) at exit
//@   ensures @pos ghost.apos == shiftArr(old(ghost.apos), after)
//@   ensures @jumps jumpsShifted(p.jumps, old(p.jumps), after)
//@   ensures @labels labelsShifted(p.labels, old(p.labels), after)
//@   ensures @frame p.instructions == old(p.instructions) && p.G == old(p.G) && p.R == old(p.R) && p.nextLabel == old(p.nextLabel)
//@   loop 1 binder k match range p.jumps
//@     invariant @frame1 p.instructions == old(p.instructions) && p.G == old(p.G) && p.R == old(p.R) && p.nextLabel == old(p.nextLabel) && p.labels == old(p.labels)
//@     invariant @done1 len(p.jumps) == len(old(p.jumps)) && forall(j, 0, len(p.jumps), p.jumps[j].index == ite(j < k, sh(old(p.jumps)[j].index, after), old(p.jumps)[j].index) && p.jumps[j].trueLabel == old(p.jumps)[j].trueLabel && p.jumps[j].falseLabel == old(p.jumps)[j].falseLabel)
//@   loop 2 binder vis match range p.labels
//@     invariant @frame2 p.instructions == old(p.instructions) && p.G == old(p.G) && p.R == old(p.R) && p.nextLabel == old(p.nextLabel)
//@     invariant @jumps2 jumpsShifted(p.jumps, old(p.jumps), after)
//@     invariant @done2 nonnil(p.labels) == nonnil(old(p.labels)) && forallk(l, p.labels, has(p.labels, l) == has(old(p.labels), l) && len(p.labels[l]) == len(old(p.labels)[l]) && forall(m, 0, len(p.labels[l]), p.labels[l][m] == ite(vis[l], sh(old(p.labels)[l][m], after), old(p.labels)[l][m])))
//@   loop 3 binder k3 match range p.labels[label]
//@     invariant @frame3 p.instructions == old(p.instructions) && p.G == old(p.G) && p.R == old(p.R) && p.nextLabel == old(p.nextLabel)
//@     invariant @jumps3 jumpsShifted(p.jumps, old(p.jumps), after)
//@     invariant @done3 nonnil(p.labels) == nonnil(old(p.labels)) && forallk(l, p.labels, has(p.labels, l) == has(old(p.labels), l) && len(p.labels[l]) == len(old(p.labels)[l]) && forall(m, 0, len(p.labels[l]), p.labels[l][m] == ite(vis[l] || (l == label && m < k3), sh(old(p.labels)[l][m], after), old(p.labels)[l][m])))

// Assumption (listed in evidence): a program has fewer than 2^32 instructions (2^32 interface values are 64 GiB),
// so that the distance of an unconditional jump fits its 32-bit field.
//@ func (p *Program) insertBridge(at Index, jump JumpIf, label Label)   properties C06
//@   deterministic C13
//@   frame_props C13
//@   requires p != nil
//@   let s = p.labels[label]
//@   let d = s[ghost.wm]
//@   requires @found isFirstAbove(s, jump.index, ghost.wm)
//@   requires @at 0 <= at && at < len(p.instructions) && at <= jump.index + 1
//@   requires @bounded idxBelow(p, len(p.instructions) + 1)
//@   requires @small len(p.instructions) < 4294967296
//@   modifies p, ghost.apos
//@   ensures @pos ghost.apos == shiftArr(old(ghost.apos), at)
//@   ensures @jumps jumpsShifted(p.jumps, old(p.jumps), at)
//@   ensures @labels labelsShifted(p.labels, old(p.labels), at)
//@   ensures @ins len(p.instructions) == len(old(p.instructions)) + 1 && forall(j, 0, at, p.instructions[j] == old(p.instructions)[j], trig(p.instructions[j])) && forall(j, at + 1, len(p.instructions), p.instructions[j] == old(p.instructions)[j - 1], trig(p.instructions[j]))
//@   ensures @bridge ite(d < len(old(p.instructions)) && isRet(old(p.instructions)[d]), p.instructions[at] == old(p.instructions)[d], istype(p.instructions[at], bpf.Jump) && w2i(unbox(p.instructions[at], bpf.Jump).Skip) == d - at)
//@   ensures @frame p.G == old(p.G) && p.R == old(p.R) && p.nextLabel == old(p.nextLabel)

//@ macro jx(p0, k) = p0.jumps[k].index
//@ macro jcur(p0, R, k) = unbox(R[ghost.apos[p0.jumps[k].index]], bpf.JumpIf)
//@ macro resKind(p0, R, k) = istype(R[ghost.apos[jx(p0, k)]], bpf.JumpIf) && jcur(p0, R, k).Cond == unbox(p0.instructions[jx(p0, k)], bpf.JumpIf).Cond && jcur(p0, R, k).Val == unbox(p0.instructions[jx(p0, k)], bpf.JumpIf).Val && 0 <= jcur(p0, R, k).SkipTrue && 0 <= jcur(p0, R, k).SkipFalse
//@ macro resMT(p0, k) = isFirstAbove(p0.labels[p0.jumps[k].trueLabel], jx(p0, k), ghost.mt[k])
//@ macro resMF(p0, k) = isFirstAbove(p0.labels[p0.jumps[k].falseLabel], jx(p0, k), ghost.mf[k])
//@ macro resBT(p0, R, k) = branchOK(R, ghost.apos[jx(p0, k)] + 1 + jcur(p0, R, k).SkipTrue, ghost.apos[p0.labels[p0.jumps[k].trueLabel][ghost.mt[k]]])
//@ macro resBF(p0, R, k) = branchOK(R, ghost.apos[jx(p0, k)] + 1 + jcur(p0, R, k).SkipFalse, ghost.apos[p0.labels[p0.jumps[k].falseLabel][ghost.mf[k]]])
// every other instruction is where the position map says, directly followed by its successor
//@ macro plainOK(p0, R) = forall(x, 0, len(p0.instructions), !istype(p0.instructions[x], bpf.JumpIf) ==> R[ghost.apos[x]] == p0.instructions[x] && ghost.apos[x + 1] == ghost.apos[x] + 1, trig(p0.instructions[x]))
//@ macro sim(p0, R) = posMono(ghost.apos) && ghost.apos[0] == 0 && ghost.apos[len(p0.instructions)] == len(R) && plainOK(p0, R) && forall(k, 0, len(p0.jumps), resKind(p0, R, k)) && forall(k, 0, len(p0.jumps), resMT(p0, k)) && forall(k, 0, len(p0.jumps), resMF(p0, k)) && forall(k, 0, len(p0.jumps), resBT(p0, R, k)) && forall(k, 0, len(p0.jumps), resBF(p0, R, k))

// ---- S-lab: the label-level program run on the structure itself (spec/46_slab.smt2), and the proof by induction
// that a resolved program that simulates it returns the same outcome from every position.
// one unfolding of runL at an explicit position (runL is opaque where these are used)
//@ lemma runLStep(p0 Program, x int, A uint32)
//@   ensures x == len(p0.instructions) && x >= 0 ==> runL(p0, x, A) == Fall(A)
//@   ensures 0 <= x && x < len(p0.instructions) && isRet(p0.instructions[x]) ==> runL(p0, x, A) == Ret(unbox(p0.instructions[x], bpf.RetConstant).Val)
//@   ensures 0 <= x && x < len(p0.instructions) && istype(p0.instructions[x], bpf.LoadAbsolute) ==> runL(p0, x, A) == runL(p0, x + 1, word(ev, unbox(p0.instructions[x], bpf.LoadAbsolute).Off))
//@   ensures 0 <= x && x < len(p0.instructions) && istype(p0.instructions[x], bpf.JumpIf) && jidx(p0.jumps, x, 0) < len(p0.jumps) && destOf(p0.labels, ite(jtest(unbox(p0.instructions[x], bpf.JumpIf).Cond, A, unbox(p0.instructions[x], bpf.JumpIf).Val), p0.jumps[jidx(p0.jumps, x, 0)].trueLabel, p0.jumps[jidx(p0.jumps, x, 0)].falseLabel), x) > x ==> runL(p0, x, A) == runL(p0, destOf(p0.labels, ite(jtest(unbox(p0.instructions[x], bpf.JumpIf).Cond, A, unbox(p0.instructions[x], bpf.JumpIf).Val), p0.jumps[jidx(p0.jumps, x, 0)].trueLabel, p0.jumps[jidx(p0.jumps, x, 0)].falseLabel), x), A)
// the search finds the recorded jump (indices are strictly increasing, hence unique)
//@ lemma jidxAll(J []JumpIf, x int, k0 int)
//@   requires 0 <= k0 && k0 <= len(J) && forall(a, 0, len(J), forall(b, a + 1, len(J), J[a].index < J[b].index))
//@   decreases len(J) - k0
//@   use jidxAll(J, x, k0 + 1) when k0 < len(J)
//@   ensures forall(kw, k0, len(J), J[kw].index == x ==> jidx(J, x, k0) == kw)
// the first position above x is what the search from j returns
//@ lemma fiaAt(s []Index, x int, j int, m int)
//@   requires 0 <= j && j <= m && m < len(s) && s[m] > x && forall(t, j, m, s[t] <= x)
//@   decreases m - j
//@   use fiaAt(s, x, j + 1, m) when j < m
//@   ensures firstIdxAbove(s, x, j) == m

//@ macro runL(p0, x, A) = runL3(p0.instructions, p0.jumps, p0.labels, x, A)
//@ macro runP(p0, x, A) = runP3(p0.instructions, p0.jumps, p0.labels, x, A)
//@ macro jk(p0, x) = jidx(p0.jumps, x, 0)
//@ macro dT(p0, x) = p0.labels[p0.jumps[jk(p0, x)].trueLabel][ghost.mt[jk(p0, x)]]
//@ macro dF(p0, x) = p0.labels[p0.jumps[jk(p0, x)].falseLabel][ghost.mf[jk(p0, x)]]
//@ macro cT(R, x) = ghost.apos[x] + 1 + unbox(R[ghost.apos[x]], bpf.JumpIf).SkipTrue
//@ macro cF(R, x) = ghost.apos[x] + 1 + unbox(R[ghost.apos[x]], bpf.JumpIf).SkipFalse
//@ macro atJump(p0, x) = x < len(p0.instructions) && istype(p0.instructions[x], bpf.JumpIf)
// one case each of the simulation theorem (the induction hypotheses are explicit premises), then the induction
//@ lemma simPlain(p0 Program, R []bpf.Instruction, x int, A uint32)
//@   requires ri(p0) && sim(p0, R) && 0 <= x && x <= len(p0.instructions) && !atJump(p0, x)
//@   requires x < len(p0.instructions) && istype(p0.instructions[x], bpf.LoadAbsolute) ==> run(R, ghost.apos[x + 1], word(ev, unbox(p0.instructions[x], bpf.LoadAbsolute).Off)) == runL(p0, x + 1, word(ev, unbox(p0.instructions[x], bpf.LoadAbsolute).Off))
//@   opaque run runL3 posMono jumpsComplete
//@   use runLStep(p0, x, A)
//@   use runStep(R, ghost.apos[x], A)
//@   use monoPivot(0)
//@   use monoPivot(len(p0.instructions))
//@   ensures run(R, ghost.apos[x], A) == runL(p0, x, A)
// a branch that continues at c behaves like a jump to t
//@ lemma branchRun(R []bpf.Instruction, c int, t int, A uint32)
//@   requires branchOK(R, c, t)
//@   opaque run
//@   use runStep(R, c, A)
//@   use runStep(R, t, A)
//@   ensures run(R, c, A) == run(R, t, A)
//@ lemma simJump(p0 Program, R []bpf.Instruction, x int, A uint32)
//@   requires ri(p0) && sim(p0, R) && 0 <= x && atJump(p0, x)
//@   requires @ihT run(R, ghost.apos[dT(p0, x)], A) == runL(p0, dT(p0, x), A)
//@   requires @ihF run(R, ghost.apos[dF(p0, x)], A) == runL(p0, dF(p0, x), A)
//@   opaque run runL3 posMono
//@   use runLStep(p0, x, A)
//@   use runStep(R, ghost.apos[x], A)
//@   use jidxAll(p0.jumps, x, 0)
//@   use fiaAt(p0.labels[p0.jumps[jk(p0, x)].trueLabel], x, 0, ghost.mt[jk(p0, x)])
//@   use fiaAt(p0.labels[p0.jumps[jk(p0, x)].falseLabel], x, 0, ghost.mf[jk(p0, x)])
//@   use monoPivot(0)
//@   use monoPivot(len(p0.instructions))
//@   use branchRun(R, cT(R, x), ghost.apos[dT(p0, x)], A)
//@   use branchRun(R, cF(R, x), ghost.apos[dF(p0, x)], A)
//@   ensures run(R, ghost.apos[x], A) == runL(p0, x, A)
// THE simulation theorem of C06, by induction on the distance to the end of the label-level program: from the moved
// position of x the resolved program returns what the label-level program returns from x.
//@ lemma simInd(p0 Program, R []bpf.Instruction, x int, A uint32)
//@   requires ri(p0) && sim(p0, R) && 0 <= x && x <= len(p0.instructions)
//@   decreases len(p0.instructions) - x
//@   opaque run runL3 posMono
//@   use jidxAll(p0.jumps, x, 0) when atJump(p0, x)
//@   use simInd(p0, R, x + 1, word(ev, unbox(p0.instructions[x], bpf.LoadAbsolute).Off)) when x < len(p0.instructions) && istype(p0.instructions[x], bpf.LoadAbsolute)
//@   use simInd(p0, R, dT(p0, x), A) when atJump(p0, x)
//@   use simInd(p0, R, dF(p0, x), A) when atJump(p0, x)
//@   use simPlain(p0, R, x, A) when !atJump(p0, x)
//@   use simJump(p0, R, x, A) when atJump(p0, x)
//@   ensures run(R, ghost.apos[x], A) == runL(p0, x, A)

// ---- S-lab on a program under construction (spec/47_prefix.smt2): how the outcome changes when an instruction is
// appended or a label is placed; each by induction on the distance to the end.
//@ macro sameBut1(p, q) = len(q.instructions) == len(p.instructions) + 1 && forall(j, 0, len(p.instructions), q.instructions[j] == p.instructions[j], trig(q.instructions[j]))
//@ macro lastI(q) = q.instructions[len(q.instructions) - 1]
//@ lemma runPStep(p0 Program, x int, A uint32)
//@   ensures x == len(p0.instructions) && x >= 0 ==> runP(p0, x, A) == PFall(A)
//@   ensures 0 <= x && x < len(p0.instructions) && isRet(p0.instructions[x]) ==> runP(p0, x, A) == PRet(unbox(p0.instructions[x], bpf.RetConstant).Val)
//@   ensures 0 <= x && x < len(p0.instructions) && istype(p0.instructions[x], bpf.LoadAbsolute) ==> runP(p0, x, A) == runP(p0, x + 1, word(ev, unbox(p0.instructions[x], bpf.LoadAbsolute).Off))
//@   ensures 0 <= x && x < len(p0.instructions) && istype(p0.instructions[x], bpf.JumpIf) && jidx(p0.jumps, x, 0) < len(p0.jumps) ==> runP(p0, x, A) == ite(destOf(p0.labels, jlab(p0, x, A), x) <= x, PPend(jlab(p0, x, A), A), runP(p0, destOf(p0.labels, jlab(p0, x, A), x), A))
//@ lemma runPStuck(p0 Program, x int, A uint32)
//@   ensures 0 <= x && x < len(p0.instructions) && istype(p0.instructions[x], bpf.JumpIf) && jidx(p0.jumps, x, 0) >= len(p0.jumps) ==> runP(p0, x, A) == PStuck
//@   ensures 0 <= x && x < len(p0.instructions) && !isRet(p0.instructions[x]) && !istype(p0.instructions[x], bpf.LoadAbsolute) && !istype(p0.instructions[x], bpf.JumpIf) ==> runP(p0, x, A) == PStuck
//@ macro jlab(p0, x, A) = ite(jtest(unbox(p0.instructions[x], bpf.JumpIf).Cond, A, unbox(p0.instructions[x], bpf.JumpIf).Val), p0.jumps[jidx(p0.jumps, x, 0)].trueLabel, p0.jumps[jidx(p0.jumps, x, 0)].falseLabel)
// no position above x: the search returns len
//@ lemma fiaNone(s []Index, x int, j int)
//@   requires 0 <= j && j <= len(s) && forall(t, j, len(s), s[t] <= x)
//@   decreases len(s) - j
//@   use fiaNone(s, x, j + 1) when j < len(s)
//@   ensures firstIdxAbove(s, x, j) == len(s)

//@ macro atJ(p0, x) = x < len(p0.instructions) && istype(p0.instructions[x], bpf.JumpIf) && jidx(p0.jumps, x, 0) < len(p0.jumps)
//@ macro atLd(p0, x) = x < len(p0.instructions) && istype(p0.instructions[x], bpf.LoadAbsolute)
//@ macro ldA(p0, x) = word(ev, unbox(p0.instructions[x], bpf.LoadAbsolute).Off)
//@ macro dst(p0, x, A) = destOf(p0.labels, jlab(p0, x, A), x)
// the search result lies between the start index and the length
//@ lemma fiaRange(s []Index, x int, j int)
//@   requires 0 <= j && j <= len(s)
//@   decreases len(s) - j
//@   use fiaRange(s, x, j + 1) when j < len(s)
//@   ensures j <= firstIdxAbove(s, x, j) && firstIdxAbove(s, x, j) <= len(s)
// a finished run of the prefix semantics is a run of S-lab
//@ lemma runLP(p0 Program, x int, A uint32)
//@   requires riL(p0) && 0 <= x && x <= len(p0.instructions)
//@   decreases len(p0.instructions) - x
//@   opaque runL3 runP3
//@   use runLStep(p0, x, A)
//@   use runPStep(p0, x, A)
//@   use fiaRange(p0.labels[jlab(p0, x, A)], x, 0) when atJ(p0, x)
//@   use runLP(p0, x + 1, ldA(p0, x)) when atLd(p0, x)
//@   use runLP(p0, dst(p0, x, A), A) when atJ(p0, x) && dst(p0, x, A) > x
//@   ensures runL(p0, x, A) == stripP(runP(p0, x, A))

// appending a return or a load changes the outcome only where the run fell off the end
//@ macro sameJL(p, q) = q.jumps == p.jumps && q.labels == p.labels
//@ lemma appendPlain(p Program, q Program, x int, A uint32)
//@   requires sameBut1(p, q) && sameJL(p, q) && riL(p) && (isRet(lastI(q)) || istype(lastI(q), bpf.LoadAbsolute)) && 0 <= x && x <= len(p.instructions)
//@   decreases len(p.instructions) - x
//@   opaque runP3
//@   use runPStep(p, x, A)
//@   use runPStep(q, x, A)
//@   use runPStuck(p, x, A)
//@   use runPStuck(q, x, A)
//@   use runPStep(q, x + 1, word(ev, unbox(lastI(q), bpf.LoadAbsolute).Off)) when x == len(p.instructions)
//@   use fiaRange(p.labels[jlab(p, x, A)], x, 0) when atJ(p, x)
//@   use appendPlain(p, q, x + 1, ldA(p, x)) when atLd(p, x)
//@   use appendPlain(p, q, dst(p, x, A), A) when atJ(p, x) && dst(p, x, A) > x
//@   ensures runP(q, x, A) == ite(isRet(lastI(q)), extRet(runP(p, x, A), unbox(lastI(q), bpf.RetConstant).Val), extLd(runP(p, x, A), unbox(lastI(q), bpf.LoadAbsolute).Off))

// appending a conditional jump (and its record) turns a run that fell off the end into a pending jump
//@ macro lastJ(q) = q.jumps[len(q.jumps) - 1]
//@ macro plusJump(p, q) = len(q.jumps) == len(p.jumps) + 1 && forall(k, 0, len(p.jumps), q.jumps[k] == p.jumps[k], trig(q.jumps[k])) && lastJ(q).index == len(p.instructions)
//@ lemma appendJif(p Program, q Program, x int, A uint32)
//@   requires sameBut1(p, q) && q.labels == p.labels && plusJump(p, q) && istype(lastI(q), bpf.JumpIf) && ri(p) && 0 <= x && x <= len(p.instructions)
//@   decreases len(p.instructions) - x
//@   opaque runP3
//@   use runPStep(p, x, A)
//@   use runPStep(q, x, A)
//@   use runPStuck(p, x, A)
//@   use runPStuck(q, x, A)
//@   use jidxAll(p.jumps, x, 0)
//@   use jidxAll(q.jumps, x, 0)
//@   use fiaNone(q.labels[jlab(q, x, A)], x, 0) when x == len(p.instructions)
//@   use fiaRange(p.labels[jlab(p, x, A)], x, 0) when atJ(p, x)
//@   use appendJif(p, q, x + 1, ldA(p, x)) when atLd(p, x)
//@   use appendJif(p, q, dst(p, x, A), A) when atJ(p, x) && dst(p, x, A) > x
//@   ensures runP(q, x, A) == extJif(runP(p, x, A), unbox(lastI(q), bpf.JumpIf).Cond, unbox(lastI(q), bpf.JumpIf).Val, lastJ(q).trueLabel, lastJ(q).falseLabel)

// placing a label that had no position at the end of the program turns a jump pending on it into a run that
// reaches the end; nothing else changes
//@ macro placed(p, q, l) = q.instructions == p.instructions && q.jumps == p.jumps && !has(p.labels, l) && has(q.labels, l) && len(q.labels[l]) == 1 && q.labels[l][0] == len(p.instructions) && forallk(l2, p.labels, l2 != l ==> (has(q.labels, l2) == has(p.labels, l2) && q.labels[l2] == p.labels[l2]))
//@ lemma placeLabel(p Program, q Program, l Label, x int, A uint32)
//@   requires placed(p, q, l) && riL(p) && 0 <= x && x <= len(p.instructions)
//@   decreases len(p.instructions) - x
//@   opaque runP3
//@   use runPStep(p, x, A)
//@   use runPStep(q, x, A)
//@   use runPStuck(p, x, A)
//@   use runPStuck(q, x, A)
//@   use runPStep(q, len(p.instructions), A)
//@   use fiaAt(q.labels[l], x, 0, 0) when x < len(p.instructions)
//@   use fiaRange(p.labels[jlab(p, x, A)], x, 0) when atJ(p, x)
//@   use placeLabel(p, q, l, x + 1, ldA(p, x)) when atLd(p, x)
//@   use placeLabel(p, q, l, dst(p, x, A), A) when atJ(p, x) && jlab(p, x, A) != l && dst(p, x, A) > x
//@   ensures runP(q, x, A) == extMark(runP(p, x, A), l)

// MT-fwd is no longer an axiom: the builder primitives maintain phi (the ghost interpreter state describes the outcome of
// the prefix semantics), and runLP turns the prefix semantics of the finished program into S-lab.
// Facts about strictly increasing position maps; in Program.Assemble posMono itself is opaque and these are used at
// explicit pivots (the definition quantifies over pairs, which is quadratic for the solver).
//@ lemma monoId()
//@   ensures posMono(idArr)
//@ lemma monoShift(k int)
//@   ensures posMono(ghost.apos) ==> posMono(shiftArr(ghost.apos, k))
//@ lemma monoPivot(x int)
//@   ensures posMono(ghost.apos) ==> forallk(y, "Int", (y > x ==> ghost.apos[y] > ghost.apos[x]) && (y < x ==> ghost.apos[y] < ghost.apos[x]))

// Contract of label resolution (property C06). A0 is the arbitrary accumulator with which the block is entered:
// p.G must have been started as Ginit(A0).
//@ func (p *Program) Assemble() ([]bpf.Instruction, error)   properties C06
//@   deterministic C13
//@   frame_props C13
//@   requires p != nil
//@   requires @ri riS(*p)
//@   use riLink(*p) at entry
//@   modifies p, ghost.apos, ghost.mt, ghost.mf, ghost.wm
//@   ensures @err result1 != nil ==> len(result0) == 0
//@   ensures @lab result1 == nil ==> run(result0, 0, A0) == runL(old(*p), 0, A0)
//@   ensures @sem result1 == nil && phi(old(*p)) ==> run(result0, 0, A0) == outG(old(p.G))
//@   let NE0 = ne(*p) && pendIn(*p, emptyLabels)
//@   ensures @noerr {C07!} NE0 ==> result1 == nil
//@   ensures @closed result1 == nil && ok(old(p)) ==> closed(result0) && retsInSet(result0, old(p.R))
//@   ensures @len result1 == nil ==> len(result0) >= len(old(p.instructions))
//@   opaque posMono jumpsComplete runL3 runP3
//@   opaque closed retsInSet except closed
//@   opaque fwdOK hopeOK pendIn except ne_dest ne_curT ne_curF
//@   ghost ghost.apos = idArr at entry
//@   use monoId() at entry
//@   use monoPivot(old(p.jumps)[i].index) at loop 1 body
//@   use monoPivot(n0) at loop 1 body
//@   use monoPivot(old(p.jumps)[i].index + 1) at loop 1 body
//@   use fiaRange(old(p.labels)[old(p.jumps)[i].trueLabel], old(p.jumps)[i].index, 0) at loop 1 body
//@   use fiaRange(old(p.labels)[old(p.jumps)[i].falseLabel], old(p.jumps)[i].index, 0) at loop 1 body
//@   assert @ne_dest {C07!} NE0 ==> destOf(old(p.labels), old(p.jumps)[i].trueLabel, old(p.jumps)[i].index) > old(p.jumps)[i].index && destOf(old(p.labels), old(p.jumps)[i].falseLabel, old(p.jumps)[i].index) > old(p.jumps)[i].index && (destOf(old(p.labels), old(p.jumps)[i].trueLabel, old(p.jumps)[i].index) >= old(p.jumps)[i].index + 2 || destOf(old(p.labels), old(p.jumps)[i].falseLabel, old(p.jumps)[i].index) >= old(p.jumps)[i].index + 2) at loop 1 body
//@   assert @ne_curT {C07!} NE0 ==> 0 <= firstIdxAbove(old(p.labels)[old(p.jumps)[i].trueLabel], old(p.jumps)[i].index, 0) && firstIdxAbove(old(p.labels)[old(p.jumps)[i].trueLabel], old(p.jumps)[i].index, 0) < len(p.labels[p.jumps[i].trueLabel]) && p.labels[p.jumps[i].trueLabel][firstIdxAbove(old(p.labels)[old(p.jumps)[i].trueLabel], old(p.jumps)[i].index, 0)] > p.jumps[i].index at loop 1 body
//@   assert @ne_curF {C07!} NE0 ==> 0 <= firstIdxAbove(old(p.labels)[old(p.jumps)[i].falseLabel], old(p.jumps)[i].index, 0) && firstIdxAbove(old(p.labels)[old(p.jumps)[i].falseLabel], old(p.jumps)[i].index, 0) < len(p.labels[p.jumps[i].falseLabel]) && p.labels[p.jumps[i].falseLabel][firstIdxAbove(old(p.labels)[old(p.jumps)[i].falseLabel], old(p.jumps)[i].index, 0)] > p.jumps[i].index at loop 1 body
//@   use fiaAt(old(p.labels)[old(p.jumps)[i].trueLabel], old(p.jumps)[i].index, 0, ghost.mt[i]) when isFirstAbove(old(p.labels)[old(p.jumps)[i].trueLabel], old(p.jumps)[i].index, ghost.mt[i]) at after assign longFalse#1
//@   use fiaAt(old(p.labels)[old(p.jumps)[i].falseLabel], old(p.jumps)[i].index, 0, ghost.mf[i]) when isFirstAbove(old(p.labels)[old(p.jumps)[i].falseLabel], old(p.jumps)[i].index, ghost.mf[i]) at after assign longFalse#1
//@   assert @ne_mt {C07!} NE0 ==> ghost.mt[i] == firstIdxAbove(old(p.labels)[old(p.jumps)[i].trueLabel], old(p.jumps)[i].index, 0) at after assign longFalse#1
//@   assert @ne_mf {C07!} NE0 ==> ghost.mf[i] == firstIdxAbove(old(p.labels)[old(p.jumps)[i].falseLabel], old(p.jumps)[i].index, 0) at after assign longFalse#1
//@   assert @ne_skips {C07!} NE0 ==> skipTrue >= 1 || skipFalse >= 1 at after assign longFalse#1
//@   use monoShift(jump.index + 1) at before call Program.insertBridge#*
//@   let n0 = len(p.instructions)
//@   let nJ = len(p.jumps)
//@   loop 1 match len(p.jumps) - 1
//@     invariant @range 0 - 1 <= i && i < nJ && len(p.jumps) == nJ
//@     invariant @frame p.G == old(p.G) && p.R == old(p.R) && p.nextLabel == old(p.nextLabel)
//@     invariant @jumps forall(k, 0, nJ, p.jumps[k].index == ghost.apos[old(p.jumps)[k].index] && p.jumps[k].trueLabel == old(p.jumps)[k].trueLabel && p.jumps[k].falseLabel == old(p.jumps)[k].falseLabel)
//@     invariant @labels nonnil(p.labels) && forallk(l, p.labels, has(p.labels, l) == has(old(p.labels), l) && len(p.labels[l]) == len(old(p.labels)[l]) && forall(m, 0, len(p.labels[l]), p.labels[l][m] == ghost.apos[old(p.labels)[l][m]]))
//@     invariant @mono posMono(ghost.apos) && ghost.apos[n0] == len(p.instructions)
//@     invariant @ident forall(y, 0, ite(i + 1 < nJ, old(p.jumps)[i + 1].index, n0) + 1, ghost.apos[y] == y)
//@     invariant @bounded idxBelow(p, len(p.instructions) + 1)
//@     invariant @plain plainOK(old(*p), p.instructions)
//@     invariant @todo forall(k, 0, i + 1, p.instructions[old(p.jumps)[k].index] == old(p.instructions)[old(p.jumps)[k].index])
//@     invariant @kind forall(k, i + 1, nJ, resKind(old(*p), p.instructions, k))
//@     invariant @mt forall(k, i + 1, nJ, resMT(old(*p), k))
//@     invariant @mf forall(k, i + 1, nJ, resMF(old(*p), k))
//@     invariant @bt forall(k, i + 1, nJ, resBT(old(*p), p.instructions, k))
//@     invariant @bf forall(k, i + 1, nJ, resBF(old(*p), p.instructions, k))
//@     invariant @grow len(p.instructions) >= n0
//@     invariant @closed {C05} ok(old(p)) ==> closed(p.instructions) && retsInSet(p.instructions, old(p.R))
//@     decreases i + 1
//@   ghost assume len(p.instructions) < 4294967294 at loop 1 body
//@   assert @xi p.jumps[i].index == old(p.jumps)[i].index && ghost.apos[old(p.jumps)[i].index] == old(p.jumps)[i].index at loop 1 body
//@   assert @above forall(k, i + 1, nJ, ghost.apos[old(p.jumps)[k].index] > p.jumps[i].index) at loop 1 body
//@   assert @aboveT forall(k, i + 1, nJ, ghost.apos[old(p.labels)[old(p.jumps)[k].trueLabel][ghost.mt[k]]] > p.jumps[i].index) at loop 1 body
//@   assert @aboveF forall(k, i + 1, nJ, ghost.apos[old(p.labels)[old(p.jumps)[k].falseLabel][ghost.mf[k]]] > p.jumps[i].index) at loop 1 body
//@   assert @skips unbox(p.instructions[jump.index], bpf.JumpIf).SkipTrue == skipTrue && unbox(p.instructions[jump.index], bpf.JumpIf).SkipFalse == skipFalse at loop 1 end
//@   assert @bt_new resBT(old(*p), p.instructions, i) at loop 1 end
//@   assert @bt_old forall(k, i + 1, nJ, resBT(old(*p), p.instructions, k)) at loop 1 end
//@   assert @bf_new resBF(old(*p), p.instructions, i) at loop 1 end
//@   assert @bf_old forall(k, i + 1, nJ, resBF(old(*p), p.instructions, k)) at loop 1 end
// the ghost bookkeeping is attached to what is computed, not to the order of the statements: the witness of a branch is
// recorded where its skip is assigned, and every call of insertBridge names the witness that belongs to the label it is
// given (if both labels are the same, so are the two witnesses)
//@   ghost ghost.mt = store(ghost.mt, i, firstIdxAbove(p.labels[jump.trueLabel], jump.index, 0)) at after assign skipTrue#1
//@   ghost ghost.mf = store(ghost.mf, i, firstIdxAbove(p.labels[jump.falseLabel], jump.index, 0)) at after assign skipFalse#1
//@   ghost ghost.wm = ite(call.arg2 == jump.trueLabel, ghost.mt[i], ghost.mf[i]) at before call Program.insertBridge#*
//@   use simInd(old(*p), p.instructions, 0, A0) at after loop 1
//@   use runLP(old(*p), 0, A0) at after loop 1

// MT-3 (meta-theory, DESIGN.md 3.3): a closed block embedded in a program behaves like the block run on its own,
// then continues behind it. Proved by induction on the execution (not by the SMT solver): trusted.
//@ lemma MT3ind(prog []bpf.Instruction, s int, B []bpf.Instruction, pc int, A uint32)
//@   requires subBlock(prog, s, B) && closed(B) && 0 <= pc && pc <= len(B)
//@   decreases len(B) - pc
//@   opaque run
//@   use runStep(prog, s + pc, A)
//@   use runStep(B, pc, A)
//@   use MT3ind(prog, s, B, pc + 1, word(ev, unbox(B[pc], bpf.LoadAbsolute).Off)) when pc < len(B) && istype(B[pc], bpf.LoadAbsolute)
//@   use MT3ind(prog, s, B, pc + 1 + unbox(B[pc], bpf.JumpIf).SkipTrue, A) when pc < len(B) && istype(B[pc], bpf.JumpIf)
//@   use MT3ind(prog, s, B, pc + 1 + unbox(B[pc], bpf.JumpIf).SkipFalse, A) when pc < len(B) && istype(B[pc], bpf.JumpIf)
//@   use MT3ind(prog, s, B, pc + 1 + w2i(unbox(B[pc], bpf.Jump).Skip), A) when pc < len(B) && istype(B[pc], bpf.Jump)
//@   ensures run(prog, s + pc, A) == thenRun(run(B, pc, A), prog, s + len(B))
//@ lemma MT3(prog []bpf.Instruction, s int, B []bpf.Instruction, A uint32)
//@   use MT3ind(prog, s, B, 0, A) when subBlock(prog, s, B) && closed(B)
//@   ensures subBlock(prog, s, B) && closed(B) ==> run(prog, s, A) == thenRun(run(B, 0, A), prog, s + len(B))

// the macro form used inside toSyscallsWithConditions and the named form used at group/policy level agree
//@ lemma groupMatchesLink(g *SyscallGroup)
//@   requires g != nil && g.arch != nil
//@   ensures groupMatches(g) == groupMatchesF(*g.arch, *g)
//@ lemma listsNonEmptyLink(g *SyscallGroup)
//@   requires g != nil
//@   ensures nwcNonEmptyUpTo(g, len(g.NamesWithCondtions)) == groupListsNonEmpty(*g)
//@ lemma anyEntryStep(sc []SyscallWithConditions, k int, x SyscallWithConditions)
//@   ensures 0 <= k && k < len(sc) && x == sc[k] ==> anyEntry(sc, k+1) == (anyEntry(sc, k) || (ev_nr(ev) == x.Num && (len(x.Conditions) == 0 || anyList(x, len(x.Conditions)))))
//@ lemma entryValidInst(sc []SyscallWithConditions, k int, x SyscallWithConditions)
//@   ensures 0 <= k && k < len(sc) && x == sc[k] && entriesOK(sc) ==> argsValid(x) && (entriesListsNonEmpty(sc) ==> semValid(x))
// Dump compiles (by Policy.Assemble's contract) and prints; like Assemble it changes nothing of the caller's policy
// but the cached architecture, and it reports the compiler's error instead of printing anything for an invalid policy
//@ func (p *Policy) Dump(out io.Writer) error   properties C07 C13
//@   deterministic C13
//@   frame_props C13
//@   requires p != nil
//@   requires @api_groups forall(i, 0, len(p.Syscalls), p.Syscalls[i].arch == nil)
//@   modifies p
//@   ensures @frame {C13} p.Syscalls == old(p.Syscalls) && p.DefaultAction == old(p.DefaultAction) && (old(p.arch) != nil ==> p.arch == old(p.arch))
//@   ensures @c07_action {C07} result == nil ==> knownAction(old(p.DefaultAction)) && len(old(p.Syscalls)) > 0 && p.arch != nil
//@   ensures @c07_groups {C07} result == nil ==> forall(i, 0, len(old(p.Syscalls)), groupValidF(*p.arch, old(p.Syscalls)[i]))
//@   loop 1 binder k match range assembled

//@ func (g *SyscallGroup) Assemble(defaultAction Action) ([]bpf.Instruction, error)   properties C01 C05 C07
//@   fresh C13
//@   deterministic C13
//@   frame_props C13
//@   requires g != nil && g.arch != nil
//@   ensures @err {C07} result1 != nil ==> len(result0) == 0
//@   ensures @sem {C01} result1 == nil && !(len(g.Names) == 0 && len(g.NamesWithCondtions) == 0) && groupListsNonEmpty(*g) && A0 == ev_nr(ev) ==> run(result0, 0, A0) == ite(groupMatchesF(*g.arch, *g), Ret(enc(g.Action)), Ret(enc(defaultAction)))
//@   ensures @closed {C05} result1 == nil ==> closed(result0)

//@ func (g *SyscallGroup) assemble(defaultAction Action, fallThrough bool) ([]bpf.Instruction, error)   properties C01 C03 C04 C05 C07
//@   fresh C13
//@   deterministic C13
//@   frame_props C13
//@   requires g != nil && g.arch != nil
//@   let empty = len(g.Names) == 0 && len(g.NamesWithCondtions) == 0
//@   ensures @empty empty ==> len(result0) == 0 && result1 == nil
//@   ensures @err {C07} result1 != nil ==> len(result0) == 0
//@   ensures @sem {C01 C03} result1 == nil && !empty && groupListsNonEmpty(*g) && A0 == ev_nr(ev) ==> run(result0, 0, A0) == ite(groupMatchesF(*g.arch, *g), Ret(enc(g.Action)), ite(fallThrough, Fall(ev_nr(ev)), Ret(enc(defaultAction))))
//@   ensures @closed {C05} result1 == nil ==> closed(result0)
//@   ensures @rets {C05} result1 == nil ==> retsInSet(result0, addRet(addRet(emptyRets, enc(g.Action)), ite(fallThrough, enc(g.Action), enc(defaultAction))))
//@   ensures @c07_names {C07} result1 == nil && !empty ==> groupValidF(*g.arch, *g)
// C07 (d): a group free of the listed defects, whose conditional entries carry at least one condition, is accepted
// (infoInj: distinct names of the architecture have distinct numbers - a ground obligation for the five real tables)
//@   ensures @accepted {C07!} groupValidF(*g.arch, *g) && groupListsNonEmpty(*g) && infoInj(*g.arch) ==> result1 == nil
//@   opaque fwdOK hopeOK pendIn endJump noJumpAtEnd hopeKeep endBelow infoInj
//@   use neEmpty(p, ls1(action)) at after assign action#1
//@   use endBelowNone(p, p.nextLabel + 1) at after assign action#1
//@   use endBelowMono(p, next, next + 1) at after assign next#1
//@   use pendMono(p, ls1(action), ls2(action, next)) at after assign next#1
// attached to every call (the label argument says which case it is; an item that names `next` applies only where
// `next` exists), so that the order of the two epilogues in the source does not matter
//@   use hopeKeepEnd(p, call.arg0, next, next) at before call Program.SetLabel#*
//@   use hopeKeepNoJump(p, call.arg0) at before call Program.SetLabel#*
//@   use pendMono(p, store(store(ls2(action, next), action, false), next, false), emptyLabels) at before call Program.Assemble#*
//@   use pendMono(p, store(ls1(action), action, false), emptyLabels) at before call Program.Assemble#*
//@   use groupValidLink(g) at entry
//@   ghost p.G = Ginit(A0) at before call Program.NewLabel#1
//@   ghost p.R = emptyRets at before call Program.NewLabel#1
//@   use groupMatchesLink(g) at entry
//@   use listsNonEmptyLink(g) at entry
//@   use anyEntryZero(syscalls) at before loop 1
//@   use entryValidInst(syscalls, k, syscall) at loop 1 body
//@   use anyEntryStep(syscalls, k, syscall) at loop 1 body
//@   loop 1 binder k match range syscalls
//@     invariant @struct nonnil(p.labels) && action == 2 && p.nextLabel >= 2 && fresh(p) && !g_done(p.G)
//@     invariant @ok {C05} p.R == emptyRets && ok(p)
//@     invariant @ri {C06} riS(p) && phi(p) && !has(p.labels, action)
//@     invariant @sem {C01 C03} A0 == ev_nr(ev) && entriesListsNonEmpty(syscalls) ==> g_live(p.G) == !anyEntry(syscalls, k) && (g_live(p.G) ==> g_A(p.G) == ev_nr(ev)) && g_taken(p.G)[action] == anyEntry(syscalls, k)
//@     invariant @ne {C07!} entriesListsNonEmpty(syscalls) ==> ne(p) && pendIn(p, ls1(action)) && eb(p)

//@ lemma groupValidLink(g *SyscallGroup)
//@   requires g != nil && g.arch != nil
//@   ensures (namesKnownUpTo(g, len(g.Names)) && namesDistinctUpTo(g, len(g.Names)) && nwcOKUpTo(g, len(g.NamesWithCondtions))) == groupValidF(*g.arch, *g)

//@ func (p *Policy) Validate() error   properties C07
//@   deterministic C13
//@   frame_props C13
//@   requires p != nil
//@   ensures @iff {C07} (result == nil) == (knownAction(p.DefaultAction) && len(p.Syscalls) > 0)

// concatenation facts (instances of the quantified definition of append(a, b...))
//@ macro isCat(R, P, Q) = (iscat(R, P, Q) && len(P) >= 0 && len(Q) >= 0)
//@ lemma catSubBlocks(R []bpf.Instruction, P []bpf.Instruction, Q []bpf.Instruction)
//@   ensures isCat(R, P, Q) ==> subBlock(R, 0, P) && subBlock(R, len(P), Q)
//@ lemma catClosed(R []bpf.Instruction, P []bpf.Instruction, Q []bpf.Instruction)
//@   ensures isCat(R, P, Q) && closed(P) && closed(Q) ==> closed(R)
//@ lemma catRetsAct(R []bpf.Instruction, P []bpf.Instruction, Q []bpf.Instruction, gs []SyscallGroup, k int, a uint32)
//@   ensures isCat(R, P, Q) && retsActUpTo(P, gs, k) && retsInSet(Q, addRet(addRet(emptyRets, a), a)) && a == enc(gs[k].Action) && k >= 0 ==> retsActUpTo(R, gs, k+1)
//@ lemma catRetsActEmpty(P []bpf.Instruction, gs []SyscallGroup, k int)
//@   ensures retsActUpTo(P, gs, k) && k >= 0 ==> retsActUpTo(P, gs, k+1)
//@ lemma polRelStep(ai arch.Info, gs []SyscallGroup, k int, o Outcome, o2 Outcome)
//@   opaque groupMatchesN
//@   ensures 0 <= k && k < len(gs) && polRel(ai, gs, k, o) && o2 == ite(is_Ret(o), o, ite(groupMatchesF(ai, gs[k]), Ret(enc(gs[k].Action)), Fall(ev_nr(ev)))) ==> polRel(ai, gs, k+1, o2)
//@ lemma polRelNoMatch(ai arch.Info, gs []SyscallGroup, k int, o Outcome)
//@   opaque groupMatchesN
//@   ensures 0 <= k && k < len(gs) && polRel(ai, gs, k, o) && !groupMatchesF(ai, gs[k]) ==> polRel(ai, gs, k+1, o)
//@ lemma emptyNoMatch(ai arch.Info, g SyscallGroup)
//@   ensures len(g.Names) == 0 && len(g.NamesWithCondtions) == 0 ==> !groupMatchesF(ai, g)
//@ lemma polRelZero(ai arch.Info, gs []SyscallGroup)
//@   ensures polRel(ai, gs, 0, Fall(ev_nr(ev)))
//@ lemma listsNonEmptyInst(gs []SyscallGroup, k int)
//@   ensures policyListsNonEmpty(gs) && 0 <= k && k < len(gs) ==> groupListsNonEmpty(gs[k])

//@ lemma emptyValid(ai arch.Info, g SyscallGroup)
//@   ensures len(g.Names) == 0 && len(g.NamesWithCondtions) == 0 ==> groupValidF(ai, g)
//@ lemma polRelShape(ai arch.Info, gs []SyscallGroup, k int, o Outcome)
//@   opaque groupMatchesN
//@   ensures polRel(ai, gs, k, o) ==> is_Ret(o) || o == Fall(ev_nr(ev))
//@ lemma polRelFinal(ai arch.Info, dflt uint32, gs []SyscallGroup, o Outcome, o2 Outcome)
//@   opaque groupMatchesN
//@   ensures polRel(ai, gs, len(gs), o) && o2 == ite(is_Ret(o), o, Ret(enc(dflt))) ==> polDone(ai, dflt, gs, o2)

// one unfolding of the interpreter (S-std) at an explicit position: in the functions that use it, `run` itself is opaque,
// so every step of the prologue is an explicit instance
//@ lemma runStep(prog []bpf.Instruction, pc int, A uint32)
//@   ensures 0 <= pc && pc < len(prog) && isRet(prog[pc]) ==> run(prog, pc, A) == Ret(unbox(prog[pc], bpf.RetConstant).Val)
//@   ensures 0 <= pc && pc < len(prog) && istype(prog[pc], bpf.LoadAbsolute) ==> run(prog, pc, A) == run(prog, pc + 1, word(ev, unbox(prog[pc], bpf.LoadAbsolute).Off))
//@   ensures 0 <= pc && pc < len(prog) && istype(prog[pc], bpf.JumpIf) ==> run(prog, pc, A) == run(prog, pc + 1 + ite(jtest(unbox(prog[pc], bpf.JumpIf).Cond, A, unbox(prog[pc], bpf.JumpIf).Val), unbox(prog[pc], bpf.JumpIf).SkipTrue, unbox(prog[pc], bpf.JumpIf).SkipFalse), A)
//@   ensures 0 <= pc && pc < len(prog) && istype(prog[pc], bpf.Jump) ==> run(prog, pc, A) == run(prog, pc + 1 + w2i(unbox(prog[pc], bpf.Jump).Skip), A)
//@   ensures pc == len(prog) && pc >= 0 ==> run(prog, pc, A) == Fall(A)
//@ lemma emptyBlock(P []bpf.Instruction, gs []SyscallGroup)
//@   ensures len(P) == 0 ==> closed(P) && retsActUpTo(P, gs, 0)
//@ lemma singleRet(Q []bpf.Instruction)
//@   ensures len(Q) == 1 && isRet(Q[0]) ==> strictClosed(Q) && closed(Q)
//@ lemma strictImpliesOK(R []bpf.Instruction, j int)
//@   ensures insnStrictOK(R, j) ==> insnOK(R, j)

//@ func (p *Policy) Assemble() ([]bpf.Instruction, error)   properties C01 C03 C04 C05 C07 C13
//@   fresh C13
//@   deterministic C13
//@   frame_props C13
//@   opaque groupValidN polDone polRel groupMatchesN closed strictClosed subBlock retsActUpTo run infoInj retsPolicy
//@   requires p != nil
//@   requires @api_groups forall(i, 0, len(p.Syscalls), p.Syscalls[i].arch == nil)
//@   modifies p
//@   ghost assume A0 == ev_nr(ev) at entry
//@   let gs = p.Syscalls
//@   let dflt = p.DefaultAction
//@   let nr = ev_nr(ev)
//@   ensures @err {C07} result1 != nil ==> len(result0) == 0
//@   ensures @frame {C13} p.Syscalls == old(p.Syscalls) && p.DefaultAction == old(p.DefaultAction) && (old(p.arch) != nil ==> p.arch == old(p.arch))
//@   ensures @decision {C01 C03 C04} result1 == nil && policyListsNonEmpty(gs) && len(result0) < 4294967296 ==> decisionRel(*p.arch, dflt, gs, run(result0, 0, Astart))
//@   ensures @c07_action {C07} result1 == nil ==> knownAction(dflt) && len(gs) > 0 && p.arch != nil
//@   ensures @c07_groups {C07} result1 == nil ==> forall(i, 0, len(gs), groupValidF(*p.arch, gs[i]))
// C07 (d): every policy free of the listed defects whose conditional entries carry at least one condition is accepted
// (architecture given; infoInj holds for the five real tables: ground obligations arch.*#ground.inj32)
//@   ensures @accepted {C07!} old(p.arch) != nil && knownAction(dflt) && len(gs) > 0 && forall(i, 0, len(gs), groupValidF(*old(p.arch), gs[i])) && policyListsNonEmpty(gs) && infoInj(*old(p.arch)) ==> result1 == nil
//@   ensures @closed {C05} result1 == nil ==> closed(result0) && len(result0) >= 4
//@   ensures @kernel {C05} result1 == nil && len(result0) <= 4096 ==> kernelAccepts(result0)
//@   ensures @rets {C05} result1 == nil ==> retsPolicy(result0, *p.arch, dflt, gs)
//@   use retsPolicyBlock(instructions, ins1, end.instructions, *p.arch, dflt, gs) at exit
//@   use retsPolicyPrefix(program, prog7, instructions, *p.arch, dflt, gs) at exit
//@   hint @rp {C05} result1 == nil ==> len(prog7) <= 6 && (isRet(program[0]) ==> retValOK(unbox(program[0], bpf.RetConstant).Val, *p.arch, dflt, gs)) && (isRet(program[1]) ==> retValOK(unbox(program[1], bpf.RetConstant).Val, *p.arch, dflt, gs)) && (isRet(program[2]) ==> retValOK(unbox(program[2], bpf.RetConstant).Val, *p.arch, dflt, gs)) && (3 < len(prog7) && isRet(program[3]) ==> retValOK(unbox(program[3], bpf.RetConstant).Val, *p.arch, dflt, gs)) && (4 < len(prog7) && isRet(program[4]) ==> retValOK(unbox(program[4], bpf.RetConstant).Val, *p.arch, dflt, gs)) && (5 < len(prog7) && isRet(program[5]) ==> retValOK(unbox(program[5], bpf.RetConstant).Val, *p.arch, dflt, gs)) at exit
//@   use emptyBlock(instructions, gs) at before loop 1
//@   use polRelZero(*p.arch, gs) at before loop 1
//@   use runStep(instructions, 0, nr) at before loop 1
//@   ghost let ins0 = instructions at loop 1 body
//@   use listsNonEmptyInst(gs, k) at loop 1 body
//@   use emptyNoMatch(*p.arch, gs[k]) at loop 1 body
//@   use emptyValid(*p.arch, gs[k]) at loop 1 body
//@   use catSubBlocks(instructions, ins0, groupInsts) at loop 1 end
//@   use catClosed(instructions, ins0, groupInsts) at loop 1 end
//@   use catRetsAct(instructions, ins0, groupInsts, gs, k, enc(group.Action)) at loop 1 end
//@   use catRetsActEmpty(ins0, gs, k) at loop 1 end
//@   use MT3(instructions, 0, ins0, nr) at loop 1 end
//@   use MT3(instructions, len(ins0), groupInsts, nr) at loop 1 end
//@   use runStep(instructions, len(instructions), fall_A(run(groupInsts, 0, nr))) at loop 1 end
//@   use runStep(groupInsts, 0, nr) at loop 1 end
//@   use polRelStep(*p.arch, gs, k, run(ins0, 0, nr), run(instructions, 0, nr)) at loop 1 end
//@   use polRelNoMatch(*p.arch, gs, k, run(ins0, 0, nr)) at loop 1 end
//@   use polRelShape(*p.arch, gs, k, run(ins0, 0, nr)) at loop 1 end
//@   ghost let ins1 = instructions at after loop 1
//@   ghost let prog6 = program at after assign program#6
//@   ghost let prog7 = program at after assign program#7
//@   use singleRet(end.instructions) at exit
//@   use catSubBlocks(instructions, ins1, end.instructions) at exit
//@   use catClosed(instructions, ins1, end.instructions) at exit
//@   use catStrict(instructions, ins1, end.instructions) at exit
//@   use MT3(instructions, 0, ins1, nr) at exit
//@   use runStep(instructions, len(ins1), fall_A(run(ins1, 0, nr))) at exit
//@   use polRelFinal(*p.arch, dflt, gs, run(ins1, 0, nr), run(instructions, 0, nr)) at exit
//@   use polRelShape(*p.arch, gs, len(gs), run(ins1, 0, nr)) at exit
//@   use catSubBlocks(program, prog7, instructions) at exit
//@   use MT3(program, len(prog7), instructions, nr) at exit
//@   use catClosedPrefix(program, prog7, instructions) at exit
//@   use catStrictPrefix(program, prog7, instructions) at exit
//@   use runStep(program, 0, Astart) at exit
//@   use runStep(program, 1, ev_arch(ev)) at exit
//@   use runStep(program, 2, ev_arch(ev)) at exit
//@   use runStep(program, 3, ev_arch(ev)) at exit
//@   use runStep(program, len(prog6), nr) at exit
//@   use runStep(program, len(prog6) + 1, nr) at exit
//@   use runStep(program, len(program) - 1, ev_arch(ev)) at exit
//@   use strictImpliesOK(program, 0) at exit
//@   use strictImpliesOK(program, 1) at exit
//@   use strictImpliesOK(program, 2) at exit
//@   use strictImpliesOK(program, 3) at exit
//@   use strictImpliesOK(program, 4) at exit
//@   use strictImpliesOK(program, 5) at exit
//@   hint @end_ret result1 == nil ==> len(end.instructions) == 1 && isRetOf(end.instructions[0], enc(dflt)) at exit
//@   hint @tail_ret result1 == nil ==> len(instructions) == len(ins1) + 1 && isRetOf(instructions[len(ins1)], enc(dflt)) at exit
//@   hint @block_run {C01 C03} result1 == nil && policyListsNonEmpty(gs) ==> polDone(*p.arch, dflt, gs, run(instructions, 0, nr)) at exit
//@   hint @last_ret {C04} result1 == nil ==> len(program) == len(prog7) + len(instructions) && isRetOf(program[len(program) - 1], enc(dflt)) at exit
//@   hint @lens result1 == nil ==> len(prog7) == len(prog6) + len(x32Filter) && len(prog6) == ite(jumpN <= 255, 3, 4) && len(x32Filter) == ite(p.arch.ID == 3221225534, 2, 0) && jumpN == len(x32Filter) + len(instructions) at exit
//@   hint @i0 result1 == nil ==> program[0] == prog6[0] && program[1] == prog6[1] && program[2] == prog6[2] && (jumpN > 255 ==> program[3] == prog6[3]) at exit
//@   hint @ix result1 == nil && p.arch.ID == 3221225534 ==> program[len(prog6)] == x32Filter[0] && program[len(prog6) + 1] == x32Filter[1] at exit
//@   hint @block_at result1 == nil ==> run(program, len(prog7), nr) == run(instructions, 0, nr) || !is_Ret(run(instructions, 0, nr)) at exit
//@   hint @tgt {C04} result1 == nil ==> run(program, len(program) - 1, ev_arch(ev)) == Ret(enc(dflt)) at exit
//@   hint @j1_short {C04} result1 == nil && jumpN <= 255 ==> istype(program[1], bpf.JumpIf) && unbox(program[1], bpf.JumpIf).Cond == 1 && unbox(program[1], bpf.JumpIf).Val == p.arch.ID && unbox(program[1], bpf.JumpIf).SkipTrue == jumpN && unbox(program[1], bpf.JumpIf).SkipFalse == 0 && 2 + jumpN == len(program) - 1 at exit
//@   hint @j1_long {C04} result1 == nil && jumpN > 255 ==> istype(program[1], bpf.JumpIf) && unbox(program[1], bpf.JumpIf).Cond == 0 && unbox(program[1], bpf.JumpIf).Val == p.arch.ID && unbox(program[1], bpf.JumpIf).SkipTrue == 1 && unbox(program[1], bpf.JumpIf).SkipFalse == 0 && istype(program[2], bpf.Jump) && (len(program) < 4294967296 ==> w2i(unbox(program[2], bpf.Jump).Skip) == jumpN) && 3 + jumpN == len(program) - 1 at exit
//@   hint @s0 result1 == nil ==> run(program, 0, Astart) == run(program, 1, ev_arch(ev)) at exit
//@   hint @s1_short {C04} result1 == nil && jumpN <= 255 ==> run(program, 1, ev_arch(ev)) == ite(ev_arch(ev) != p.arch.ID, Ret(enc(dflt)), run(program, 2, ev_arch(ev))) at exit
//@   hint @s2_short result1 == nil && jumpN <= 255 ==> run(program, 2, ev_arch(ev)) == run(program, 3, nr) at exit
//@   hint @s2_long {C04} result1 == nil && jumpN > 255 && len(program) < 4294967296 ==> run(program, 2, ev_arch(ev)) == Ret(enc(dflt)) at exit
//@   hint @s1_long {C04} result1 == nil && jumpN > 255 && len(program) < 4294967296 ==> run(program, 1, ev_arch(ev)) == ite(ev_arch(ev) != p.arch.ID, Ret(enc(dflt)), run(program, 3, ev_arch(ev))) at exit
//@   hint @s3_long result1 == nil && jumpN > 255 ==> run(program, 3, ev_arch(ev)) == run(program, 4, nr) at exit
//@   hint @sx {C04} result1 == nil && p.arch.ID == 3221225534 ==> run(program, len(prog6), nr) == ite(nr >= 1073741824, Ret(327718), run(program, len(prog6) + 2, nr)) at exit
//@   hint @k0 {C05} result1 == nil ==> insnStrictOK(program, 0) && insnStrictOK(program, 2) && (jumpN > 255 ==> insnStrictOK(program, 3)) at exit
//@   hint @k1 {C05} result1 == nil && len(program) < 4294967296 ==> insnStrictOK(program, 1) && (jumpN > 255 ==> insnStrictOK(program, 2)) at exit
//@   hint @kx {C05} result1 == nil && p.arch.ID == 3221225534 ==> insnStrictOK(program, len(prog6)) && insnStrictOK(program, len(prog6) + 1) at exit
//@   loop 1 binder k match range p.Syscalls
//@     invariant @own own(instructions) && p.arch != nil
//@     invariant @closed {C05} closed(instructions)
//@     invariant @rets {C05} retsActUpTo(instructions, gs, k)
//@     invariant @sem {C01 C03} policyListsNonEmpty(gs) ==> polRel(*p.arch, gs, k, run(instructions, 0, nr))
//@     invariant @c07 {C07} forall(i, 0, k, groupValidF(*p.arch, gs[i]))

// C05, closed return set of the whole program: the group blocks return group actions (retsActUpTo), the block ends in
// the return of the default action, and the explicit prologue contains no return except ERRNO(ENOSYS) on x86_64
//@ lemma retsPolicyBlock(Q []bpf.Instruction, P []bpf.Instruction, E []bpf.Instruction, ai arch.Info, dflt Action, gs []SyscallGroup)
//@   ensures isCat(Q, P, E) && retsActUpTo(P, gs, len(gs)) && len(E) == 1 && isRetOf(E[0], enc(dflt)) ==> retsPolicy(Q, ai, dflt, gs)
//@ lemma retsPolicyPrefix(R []bpf.Instruction, P []bpf.Instruction, Q []bpf.Instruction, ai arch.Info, dflt Action, gs []SyscallGroup)
//@   ensures isCat(R, P, Q) && retsPolicy(Q, ai, dflt, gs) && forall(j, 0, len(P), isRet(R[j]) ==> retValOK(unbox(R[j], bpf.RetConstant).Val, ai, dflt, gs), trig(R[j])) ==> retsPolicy(R, ai, dflt, gs)
//@ lemma catStrict(R []bpf.Instruction, P []bpf.Instruction, Q []bpf.Instruction)
//@   ensures isCat(R, P, Q) && closed(P) && strictClosed(Q) && len(Q) >= 1 ==> strictClosed(R)
//@ lemma catStrictPrefix(R []bpf.Instruction, P []bpf.Instruction, Q []bpf.Instruction)
//@   ensures isCat(R, P, Q) && strictClosed(Q) && forall(j, 0, len(P), insnStrictOK(R, j)) ==> strictClosed(R)

// a closed block behind an explicit prefix: jumps of the prefix are checked where the prefix is built
//@ lemma catClosedPrefix(R []bpf.Instruction, P []bpf.Instruction, Q []bpf.Instruction)
//@   ensures isCat(R, P, Q) && closed(Q) && forall(j, 0, len(P), insnOK(R, j)) ==> closed(R)

// ---------------------------------------------------------------------------
// Text forms (C13 C14)
// ---------------------------------------------------------------------------

//@ func (a Action) String() string   properties C13 C14
//@   deterministic C13
//@   frame_props C13
//@   ensures @known has(actionNames, a) ==> result == actionNames[a]
//@   ensures @unknown !has(actionNames, a) ==> result == "unknown"

//@ func (a *Action) Unpack(s string) error   properties C13 C14
//@   deterministic C13
//@   frame_props C13
//@   determined
//@   requires a != nil
//@   modifies a
//@   let ls = tolower(s)
//@   ensures @known {C14} existsk(x, actionNames, has(actionNames, x) && actionNames[x] == ls) ==> result == nil && has(actionNames, *a) && actionNames[*a] == ls
//@   ensures @unknown {C14} !existsk(x, actionNames, has(actionNames, x) && actionNames[x] == ls) ==> result != nil && *a == old(*a)
//@   loop 1 binder vis match range actionNames
//@     invariant @none forallk(x, actionNames, vis[x] ==> actionNames[x] != s)
//@     invariant @frame a != nil && *a == old(*a)

// what Unpack's postcondition yields for the printed form of a named action determines the action (names are pairwise distinct)
//@ lemma actionRoundTrip(a Action, a2 Action)   properties C14
//@   ensures has(actionNames, a) && has(actionNames, a2) && actionNames[a2] == tolower(actionNames[a]) ==> a2 == a
//@ lemma actionNamesLower(a Action)   properties C14
//@   ensures has(actionNames, a) ==> tolower(actionNames[a]) == actionNames[a]

//@ func (o *Operation) Unpack(s string) error   properties C14
//@   deterministic C13
//@   frame_props C13
//@   requires o != nil
//@   modifies o
//@   let ls = tolower(s)
//@   ensures @known {C14} exists(j, 0, len(Operations), tolower(Operations[j]) == ls) ==> result == nil && tolower(*o) == ls && exists(j, 0, len(Operations), Operations[j] == *o)
//@   ensures @unknown {C14} !exists(j, 0, len(Operations), tolower(Operations[j]) == ls) ==> result != nil && *o == old(*o)
//@   loop 1 binder k match range Operations
//@     invariant @none forall(j, 0, k, tolower(Operations[j]) != s)
//@     invariant @frame o != nil && *o == old(*o)

//@ lemma operationRoundTrip(o Operation, o2 Operation)   properties C14
//@   ensures knownOp(o) && knownOp(o2) && tolower(o2) == tolower(o) ==> o2 == o

// ---------------------------------------------------------------------------
// Loader (seccomp_linux.go): ghost kernel / scheduler state, see spec/kernel.spec
// ---------------------------------------------------------------------------
//@ global cur ghost:Int
//@ global anycur ghost:Int
//@ global locked ghost:Bool
//@ global nnp ghost:(Array Int Bool)
//@ global att ghost:(Array Int Bool)
//@ global priv ghost:Bool
//@ global kwould ghost:Bool
//@ global prctlOK ghost:Bool
//@ global strict ghost:Bool
//@ global nseccomp ghost:Int
//@ global nprctl ghost:Int
//@ global kop ghost:(_ BitVec 64)
//@ global kflags ghost:(_ BitVec 64)
//@ global ka3 ghost:(_ BitVec 64)

// ---- from the instruction list to what the kernel runs (C05 "encodes without error", C08 hand-over) ----
// a closed program consists of instructions that can be encoded and on which S-std and the kernel semantics of the raw
// form agree
//@ lemma closedStd(R []bpf.Instruction)
//@   ensures closed(R) ==> forall(i, 0, len(R), stdInsn(R[i]) && encodable(R[i]) && (istype(R[i], bpf.RetConstant) || istype(R[i], bpf.Jump) || istype(R[i], bpf.LoadAbsolute) || istype(R[i], bpf.JumpIf)), trig(R[i]))
// one unfolding of the kernel semantics on the sock_filter array at an explicit position
//@ lemma runSFStep(sf []syscall.SockFilter, pc int, A uint32)
//@   ensures pc == len(sf) && pc >= 0 ==> runSF(sf, pc, A) == Fall(A)
//@   ensures pc < 0 || pc > len(sf) ==> runSF(sf, pc, A) == Stuck
//@   ensures 0 <= pc && pc < len(sf) && sf[pc].Code == 6 ==> runSF(sf, pc, A) == Ret(sf[pc].K)
//@   ensures 0 <= pc && pc < len(sf) && sf[pc].Code == 32 ==> runSF(sf, pc, A) == runSF(sf, pc + 1, word(ev, sf[pc].K))
//@   ensures 0 <= pc && pc < len(sf) && sf[pc].Code == 5 ==> runSF(sf, pc, A) == runSF(sf, pc + 1 + w2i(sf[pc].K), A)
//@   ensures 0 <= pc && pc < len(sf) && (sf[pc].Code == 21 || sf[pc].Code == 37 || sf[pc].Code == 53 || sf[pc].Code == 69) ==> runSF(sf, pc, A) == runSF(sf, pc + 1 + ite(sfTest(sf[pc].Code, A, sf[pc].K), sf[pc].Jt, sf[pc].Jf), A)
//@ lemma runOut(prog []bpf.Instruction, pc int, A uint32)
//@   ensures pc < 0 || pc > len(prog) ==> run(prog, pc, A) == Stuck
// THE hand-over theorem of C08: the sock_filter array that is, element by element, the raw form of the instruction list
// runs under the kernel's semantics exactly like the instruction list under S-std, from every position; by induction
// on the distance to the end (forward jumps only)
//@ macro jT(insts, pc) = pc + 1 + unbox(insts[pc], bpf.JumpIf).SkipTrue
//@ macro jF(insts, pc) = pc + 1 + unbox(insts[pc], bpf.JumpIf).SkipFalse
//@ macro jA(insts, pc) = pc + 1 + w2i(unbox(insts[pc], bpf.Jump).Skip)
//@ lemma sfRunInd(insts []bpf.Instruction, raw []bpf.RawInstruction, sf []syscall.SockFilter, pc int, A uint32)
//@   requires handedOver(insts, raw, sf) && 0 <= pc && pc <= len(insts)
//@   decreases len(insts) - pc
//@   opaque run runSF
//@   use runStep(insts, pc, A)
//@   use runSFStep(sf, pc, A)
//@   use sfRunInd(insts, raw, sf, pc + 1, word(ev, unbox(insts[pc], bpf.LoadAbsolute).Off)) when pc < len(insts) && istype(insts[pc], bpf.LoadAbsolute)
//@   use sfRunInd(insts, raw, sf, jT(insts, pc), A) when pc < len(insts) && istype(insts[pc], bpf.JumpIf) && jT(insts, pc) <= len(insts)
//@   use sfRunInd(insts, raw, sf, jF(insts, pc), A) when pc < len(insts) && istype(insts[pc], bpf.JumpIf) && jF(insts, pc) <= len(insts)
//@   use sfRunInd(insts, raw, sf, jA(insts, pc), A) when pc < len(insts) && istype(insts[pc], bpf.Jump) && jA(insts, pc) <= len(insts)
//@   use runOut(insts, jT(insts, pc), A) when pc < len(insts) && istype(insts[pc], bpf.JumpIf)
//@   use runOut(insts, jF(insts, pc), A) when pc < len(insts) && istype(insts[pc], bpf.JumpIf)
//@   use runOut(insts, jA(insts, pc), A) when pc < len(insts) && istype(insts[pc], bpf.Jump)
//@   use runSFStep(sf, jT(insts, pc), A) when pc < len(insts) && istype(insts[pc], bpf.JumpIf)
//@   use runSFStep(sf, jF(insts, pc), A) when pc < len(insts) && istype(insts[pc], bpf.JumpIf)
//@   use runSFStep(sf, jA(insts, pc), A) when pc < len(insts) && istype(insts[pc], bpf.Jump)
//@   ensures runSF(sf, pc, A) == run(insts, pc, A)

//@ func sockFilter(raw []bpf.RawInstruction) []syscall.SockFilter   properties C08
//@   ensures @len {C08} len(result) == len(raw) && own(result)
//@   ensures @elems {C08} forall(i, 0, len(raw), result[i].Code == raw[i].Op && result[i].Jt == raw[i].Jt && result[i].Jf == raw[i].Jf && result[i].K == raw[i].K)
//@   loop 1 binder k match range raw
//@     invariant @len len(filter) == k && own(filter)
//@     invariant @elems forall(i, 0, k, filter[i].Code == raw[i].Op && filter[i].Jt == raw[i].Jt && filter[i].Jf == raw[i].Jf && filter[i].K == raw[i].K)

// R-sched: the goroutine may be moved to another OS thread before any system call unless it is locked to its thread
//@ func seccomp(op uintptr, flags FilterFlag, uargs unsafe.Pointer) error   properties C09 C10
//@   modifies ghost.att, ghost.nseccomp, ghost.kop, ghost.kflags, ghost.ka3, ghost.strict
//@   ensures @one_call {C09 C10} ghost.nseccomp == old(ghost.nseccomp) + 1 && ghost.nprctl == old(ghost.nprctl) && ghost.nnp == old(ghost.nnp)
//@   ensures @args {C10} ghost.kop == op && ghost.kflags == zext64(flags) && uptrOf(ghost.ka3) == uargs
//@   ensures @attached {C08 C09} op == 1 && result == nil ==> (ghost.nnp[ghost.cur] || ghost.priv) && ghost.att == ite(flags & 1 != 0, allThreads, store(old(ghost.att), ghost.cur, true))
//@   ensures @refused {C09} op == 1 && result != nil ==> ghost.att == old(ghost.att)
//@   ensures @accepted {C11} op == 1 && (ghost.nnp[ghost.cur] || ghost.priv) && ghost.kwould ==> result == nil
//@   ensures @unprivileged {C11} op == 1 && !(ghost.nnp[ghost.cur] || ghost.priv) ==> result != nil
//@   ensures @strict {C09} op == 0 && flags != 0 ==> result != nil && ghost.att == old(ghost.att) && ghost.strict == old(ghost.strict)
//@   ensures @filter_frame op == 1 ==> ghost.strict == old(ghost.strict)

//@ func prctl(option uintptr, args ...uintptr) error   properties C09 C11
//@   modifies ghost.nnp, ghost.nprctl
//@   ensures @toobig {C09} len(args) > 4 ==> result != nil && ghost.nprctl == old(ghost.nprctl) && ghost.nnp == old(ghost.nnp)
//@   ensures @one_call {C11} len(args) <= 4 ==> ghost.nprctl == old(ghost.nprctl) + 1
//@   ensures @nnp {C11} option == 38 && len(args) == 1 && args[0] == 1 && result == nil ==> ghost.nnp == store(old(ghost.nnp), ghost.cur, true)
//@   ensures @nnp_ok {C11} option == 38 && len(args) == 1 && args[0] == 1 && ghost.prctlOK ==> result == nil
//@   ensures @frame {C11} !(option == 38 && len(args) >= 1 && args[0] == 1 && result == nil) ==> ghost.nnp == old(ghost.nnp)
//@   ensures @others ghost.nseccomp == old(ghost.nseccomp) && ghost.att == old(ghost.att)

//@ func SetNoNewPrivs() error   properties C11
//@   modifies ghost.nnp, ghost.nprctl
//@   ensures @nnp {C11} result == nil ==> ghost.nnp == store(old(ghost.nnp), ghost.cur, true)
//@   ensures @err {C11} result != nil ==> ghost.nnp == old(ghost.nnp)
//@   ensures @ok {C11} ghost.prctlOK ==> result == nil
//@   ensures @one_call ghost.nprctl == old(ghost.nprctl) + 1

//@ func Supported() bool   properties C09
//@   modifies ghost.att, ghost.nseccomp, ghost.kop, ghost.kflags, ghost.ka3, ghost.strict
//@   ensures @no_state_change {C09} ghost.att == old(ghost.att) && ghost.strict == old(ghost.strict) && ghost.nnp == old(ghost.nnp) && ghost.nprctl == old(ghost.nprctl)
//@   ensures @probe {C09} ghost.nseccomp == old(ghost.nseccomp) + 1 && ghost.kop == 0 && ghost.kflags != 0

//@ func LoadFilter(filter Filter) error   properties C08 C09 C10 C11
//@   opaque closed strictClosed subBlock retsActUpTo run polRel polDone groupMatchesN groupValidN runSF infoInj retsPolicy decisionRel
//@   requires @api_groups forall(i, 0, len(filter.Policy.Syscalls), filter.Policy.Syscalls[i].arch == nil)
//@   requires @fresh_filter ghost.att == noThreads
//@   modifies ghost.att, ghost.nseccomp, ghost.kop, ghost.kflags, ghost.ka3, ghost.strict, ghost.nnp, ghost.nprctl, ghost.locked, ghost.cur, ghost.anycur
// R-sched: before each system call the goroutine may have been moved to another OS thread, unless it is locked
//@   ghost havoc ghost.anycur at before call SetNoNewPrivs#1
//@   ghost ghost.cur = ite(ghost.locked, ghost.cur, ghost.anycur) at before call SetNoNewPrivs#1
//@   ghost havoc ghost.anycur at before call seccomp#1
//@   ghost ghost.cur = ite(ghost.locked, ghost.cur, ghost.anycur) at before call seccomp#1
//@   assert @nnp_before_install {C11} filter.NoNewPrivs ==> ghost.nnp[ghost.cur] at before call seccomp#1
//@   assert @handover {C08} nonnil(program) && program.Len == len(sockFilter) && len(sockFilter) == len(insts) && nonnil(program.Filter) && *program.Filter == sockFilter[0] && forall(i, 0, len(insts), encodes(insts[i], raw[i])) && forall(i, 0, len(insts), sockFilter[i].Code == raw[i].Op && sockFilter[i].Jt == raw[i].Jt && sockFilter[i].Jf == raw[i].Jf && sockFilter[i].K == raw[i].K) at before call seccomp#1
// C05: the compiled program always encodes (the error return after bpf.Assemble is dead code for compiled policies);
// C08: the array handed to the kernel runs, under the kernel's semantics of sock_filter programs (runSF), like the
// compiled instruction list under S-std (theorem sfRunInd), hence decides every event as the policy says
//@   use closedStd(insts) at after assign insts#1
//@   assert @encodes_ok {C05 C08} err == nil at after assign raw#1
//@   use sfRunInd(insts, raw, sockFilter, 0, Astart) at before call seccomp#1
//@   assert @kernel_runs {C08} runSF(sockFilter, 0, Astart) == run(insts, 0, Astart) at before call seccomp#1
//@   assert @kernel_decides {C08} policyListsNonEmpty(filter.Policy.Syscalls) ==> decisionRel(*filter.Policy.arch, filter.Policy.DefaultAction, filter.Policy.Syscalls, runSF(sockFilter, 0, Astart)) at before call seccomp#1
//@   ensures @in_force {C08 C09} result == nil ==> ghost.att[ghost.cur] && (filter.Flag & 1 != 0 ==> ghost.att == allThreads)
//@   ensures @refused {C09} ghost.att != noThreads ==> result == nil
//@   ensures @one_seccomp {C09 C10} result == nil ==> ghost.nseccomp == old(ghost.nseccomp) + 1 && ghost.kop == 1 && ghost.kflags == zext64(filter.Flag)
//@   ensures @program_arg {C08} result == nil ==> nonnil(uptrTo(ghost.ka3, syscall.SockFprog))
//@   ensures @no_tsync_others {C10} result == nil && filter.Flag & 1 == 0 ==> ghost.att == store(noThreads, ghost.cur, true)
//@   ensures @nnp_iff {C11} !filter.NoNewPrivs ==> ghost.nnp == old(ghost.nnp) && ghost.nprctl == old(ghost.nprctl)
//@   ensures @unprivileged_needs_nnp {C11} !filter.NoNewPrivs && !ghost.priv && !ghost.nnp[ghost.cur] ==> result != nil && ghost.att == noThreads
//@   ensures @strict_untouched ghost.strict == old(ghost.strict)
//@   ensures @early_failure {C09} ghost.nseccomp == old(ghost.nseccomp) ==> ghost.nnp == old(ghost.nnp) && ghost.att == noThreads && result != nil
//@   ensures @assemble_first {C09} ghost.nprctl != old(ghost.nprctl) ==> ghost.nseccomp != old(ghost.nseccomp) || !ghost.prctlOK

//@ func (f FilterFlag) String() string   properties C13
//@   deterministic C13
//@   frame_props C13
//@   loop 1 binder k match range filterFlags
//@     invariant @own own(list)
//@ func (f FilterFlag) MarshalText() ([]byte, error)   properties C13
//@   fresh C13
//@   deterministic C13
//@ func (a Action) MarshalText() ([]byte, error)   properties C13 C14
//@   fresh C13
//@   deterministic C13
