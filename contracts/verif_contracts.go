//go:build verif

// Contracts for package seccomp, read by /verif/govc (comment-only file: nothing is compiled).
// Syntax: DESIGN.md section 4.

package seccomp

//@ func getSyscall(syscalls []SyscallWithConditions, syscall uint32) *SyscallWithConditions   properties C03 C07
//@   returns_elem syscalls
//@   ensures @found result != nil ==> (syscalls[idx(result)].Num == syscall && forall(j, 0, idx(result), syscalls[j].Num != syscall))
//@   ensures @absent result == nil ==> forall(j, 0, len(syscalls), syscalls[j].Num != syscall)
//@   loop 1 binder k
//@     invariant @none_before forall(j, 0, k, syscalls[j].Num != syscall)

// ---------------------------------------------------------------------------
// Layer B: builder primitives (assembler.go). Ghost field G is the state of the
// single-pass forward interpreter (spec/cbpf.smt2) on the ghost event `ev`;
// it is advanced by ghost statements that read what the code actually appended.
// ---------------------------------------------------------------------------

//@ type Program
//@   field G GState

// Assumption (listed in evidence): label counters stay below 2^62 — reaching it needs 2^62 NewLabel calls.
//@ type Label
//@   invariant @label_range 0 - 4611686018427387904 < self && self < 4611686018427387904

//@ macro fresh(p) = freshAbove(p.G, p.nextLabel)

//@ func NewProgram() Program   properties C01 C03 C05 C06
//@   ensures @empty len(result.instructions) == 0 && len(result.jumps) == 0 && result.nextLabel == 1
//@   ensures @labels nonnil(result.labels) && card(result.labels) == 0

//@ func (p *Program) NewLabel() Label   properties C01 C02 C03 C06
//@   requires p != nil
//@   modifies p
//@   ensures @next result == old(p.nextLabel) + 1 && p.nextLabel == result
//@   ensures @frame p.G == old(p.G) && p.instructions == old(p.instructions) && p.jumps == old(p.jumps) && p.labels == old(p.labels)
//@   ensures @fresh fresh(old(p)) ==> fresh(p) && !g_taken(p.G)[result]

//@ func (p *Program) currentIndex() Index   properties C06
//@   requires p != nil
//@   ensures result == len(p.instructions)

//@ func (p *Program) JmpIf(cond bpf.JumpTest, val uint32, trueLabel Label, falseLabel Label)   properties C01 C02 C03 C05 C06
//@   requires p != nil
//@   modifies p
//@   ghost p.G = stepJif(p.G, unbox(p.instructions[len(p.instructions)-1], bpf.JumpIf).Cond, unbox(p.instructions[len(p.instructions)-1], bpf.JumpIf).Val, p.jumps[len(p.jumps)-1].trueLabel, p.jumps[len(p.jumps)-1].falseLabel) at exit
//@   ensures @sem p.G == stepJif(old(p.G), cond, val, trueLabel, falseLabel)
//@   ensures @insn len(p.instructions) == len(old(p.instructions)) + 1 && istype(p.instructions[len(p.instructions)-1], bpf.JumpIf)
//@   ensures @frame p.nextLabel == old(p.nextLabel) && p.labels == old(p.labels)
//@   ensures @fresh fresh(old(p)) && trueLabel <= old(p.nextLabel) && falseLabel <= old(p.nextLabel) ==> fresh(p)

//@ func (p *Program) SetLabel(label Label)   properties C01 C02 C03 C06
//@   requires p != nil && nonnil(p.labels)
//@   modifies p
//@   ghost p.G = stepMark(p.G, label) at exit
//@   ensures @sem p.G == stepMark(old(p.G), label)
//@   ensures @frame p.nextLabel == old(p.nextLabel) && p.instructions == old(p.instructions) && p.jumps == old(p.jumps) && nonnil(p.labels)
//@   ensures @fresh fresh(old(p)) ==> fresh(p)

//@ func (p *Program) JmpIfTrue(cond bpf.JumpTest, val uint32, trueLabel Label)   properties C01 C02 C03 C05 C06
//@   requires p != nil && nonnil(p.labels)
//@   modifies p
//@   ensures @sem p.G == stepMark(stepJif(old(p.G), cond, val, trueLabel, old(p.nextLabel) + 1), old(p.nextLabel) + 1)
//@   ensures @frame p.nextLabel == old(p.nextLabel) + 1 && nonnil(p.labels)
//@   ensures @insn len(p.instructions) == len(old(p.instructions)) + 1
//@   ensures @fresh fresh(old(p)) && trueLabel <= old(p.nextLabel) ==> fresh(p) && !g_taken(old(p.G))[old(p.nextLabel) + 1]

//@ func (p *Program) Ret(action Action)   properties C01 C05 C06
//@   requires p != nil
//@   modifies p
//@   ghost p.G = stepRet(p.G, unbox(p.instructions[len(p.instructions)-1], bpf.RetConstant).Val) at exit
//@   ensures @sem {C01} p.G == stepRet(old(p.G), enc(action))
//@   ensures @insn len(p.instructions) == len(old(p.instructions)) + 1 && isRetOf(p.instructions[len(p.instructions)-1], enc(action))
//@   ensures @frame p.nextLabel == old(p.nextLabel) && p.labels == old(p.labels) && p.jumps == old(p.jumps)
//@   ensures @fresh fresh(old(p)) ==> fresh(p)

//@ func (p *Program) LdHi(arg uint32)   properties C02 C05
//@   requires p != nil
//@   requires @arg_le_5 arg <= 5
//@   modifies p
//@   ghost p.G = stepLd(p.G, unbox(p.instructions[len(p.instructions)-1], bpf.LoadAbsolute).Off) at exit
//@   ensures @sem {C02} p.G == mkG(g_live(old(p.G)), ite(g_live(old(p.G)), hi64(ev_args(ev)[arg]), g_A(old(p.G))), g_done(old(p.G)), g_rval(old(p.G)), g_taken(old(p.G)), g_tA(old(p.G)))
//@   ensures @insn {C05} len(p.instructions) == len(old(p.instructions)) + 1 && validLoad(p.instructions[len(p.instructions)-1])
//@   ensures @frame p.nextLabel == old(p.nextLabel) && p.labels == old(p.labels) && p.jumps == old(p.jumps)
//@   ensures @fresh fresh(old(p)) ==> fresh(p)

//@ func (p *Program) ldSyscallNum()   properties C03 C05
//@   requires p != nil
//@   modifies p
//@   ghost p.G = stepLd(p.G, unbox(p.instructions[len(p.instructions)-1], bpf.LoadAbsolute).Off) at exit
//@   ensures @sem {C03} p.G == mkG(g_live(old(p.G)), ite(g_live(old(p.G)), ev_nr(ev), g_A(old(p.G))), g_done(old(p.G)), g_rval(old(p.G)), g_taken(old(p.G)), g_tA(old(p.G)))
//@   ensures @insn {C05} len(p.instructions) == len(old(p.instructions)) + 1 && validLoad(p.instructions[len(p.instructions)-1])
//@   ensures @frame p.nextLabel == old(p.nextLabel) && p.labels == old(p.labels) && p.jumps == old(p.jumps)
//@   ensures @fresh fresh(old(p)) ==> fresh(p)

//@ func (p *Program) LdLo(arg uint32)   properties C02 C05
//@   requires p != nil
//@   requires @arg_le_5 arg <= 5
//@   modifies p
//@   ghost p.G = stepLd(p.G, unbox(p.instructions[len(p.instructions)-1], bpf.LoadAbsolute).Off) at exit
//@   ensures @sem {C02} p.G == mkG(g_live(old(p.G)), ite(g_live(old(p.G)), lo64(ev_args(ev)[arg]), g_A(old(p.G))), g_done(old(p.G)), g_rval(old(p.G)), g_taken(old(p.G)), g_tA(old(p.G)))
//@   ensures @insn {C05} len(p.instructions) == len(old(p.instructions)) + 1 && validLoad(p.instructions[len(p.instructions)-1])
//@   ensures @frame p.nextLabel == old(p.nextLabel) && p.labels == old(p.labels) && p.jumps == old(p.jumps)
//@   ensures @fresh fresh(old(p)) ==> fresh(p)

// nativeEndian is assigned once by init() (not verified: unsafe); it is one of the two orders.
//@ global nativeEndian immutable
//@ axiom @endian (nativeEndian == binary.LittleEndian) == le && (nativeEndian == binary.BigEndian) == !le

// ---------------------------------------------------------------------------
// Layer P: policy compilation (filter.go)
// ---------------------------------------------------------------------------

// allHold: every condition of the list is satisfied by the ghost event (C02/C03: unsigned 64-bit relations of spec/policy.smt2)
//@ macro allHoldUpTo(list, n) = forall(q_, 0, n, holds(list[q_], ev))
// anyList: one of the first k condition lists of entry s is satisfied
//@ macro anyList(s, k) = exists(j_, 0, k, allHoldUpTo(s.Conditions[j_], len(s.Conditions[j_])))
//@ macro entryMatches(s) = (ev_nr(ev) == s.Num && (len(s.Conditions) == 0 || anyList(s, len(s.Conditions))))
// semValid: what C03/C07 assume of a conditional entry (>= 1 condition per list, implemented operations)
//@ macro semValid(s) = forall(a_, 0, len(s.Conditions), len(s.Conditions[a_]) >= 1 && forall(b_, 0, len(s.Conditions[a_]), knownOp(s.Conditions[a_][b_].Operation)))
//@ macro argsValid(s) = forall(a_, 0, len(s.Conditions), forall(b_, 0, len(s.Conditions[a_]), s.Conditions[a_][b_].Argument <= 5))

// Quantifier bookkeeping, proved once and instantiated explicitly (so that the compile-path obligations are ground).
//@ lemma allHoldZero(list []Condition)
//@   ensures allHoldUpTo(list, 0)
//@ lemma allHoldStep(list []Condition, i int, c Condition)
//@   requires 0 <= i && i < len(list) && c == list[i]
//@   ensures allHoldUpTo(list, i+1) == (allHoldUpTo(list, i) && holds(c, ev))
//@ lemma anyListZero(s SyscallWithConditions)
//@   ensures !anyList(s, 0)
//@ lemma anyListStep(s SyscallWithConditions, k int, list []Condition, n int)
//@   requires 0 <= k && k < len(s.Conditions) && list == s.Conditions[k] && n == len(list)
//@   ensures anyList(s, k+1) == (anyList(s, k) || allHoldUpTo(list, n))
//@ lemma semInst(s SyscallWithConditions, k int, list []Condition, i int, c Condition)
//@   requires 0 <= k && k < len(s.Conditions) && list == s.Conditions[k] && 0 <= i && i < len(list) && c == list[i]
//@   ensures semValid(s) ==> len(list) >= 1 && knownOp(c.Operation)
//@ lemma semInstList(s SyscallWithConditions, k int, list []Condition)
//@   requires 0 <= k && k < len(s.Conditions) && list == s.Conditions[k]
//@   ensures semValid(s) ==> len(list) >= 1
//@ lemma argsInst(s SyscallWithConditions, k int, list []Condition, i int, c Condition)
//@   requires argsValid(s) && 0 <= k && k < len(s.Conditions) && list == s.Conditions[k] && 0 <= i && i < len(list) && c == list[i]
//@   ensures c.Argument <= 5

//@ func (s SyscallWithConditions) Assemble(p *Program, action Label)   properties C02 C03 C05 C07
//@   requires p != nil && nonnil(p.labels)
//@   requires 1 <= action && action <= p.nextLabel
//@   requires fresh(p)
//@   requires @args_valid argsValid(s)
//@   modifies p
//@   let G0 = p.G
//@   let N0 = p.nextLabel
//@   let hdr = ev_nr(ev) == s.Num
//@   let pre = g_live(p.G) && g_A(p.G) == ev_nr(ev)
//@   let sem = semValid(s)
//@   let n = len(s.Conditions)
//@   ensures @live {C03} pre && sem ==> g_live(p.G) == !(hdr && (n == 0 || anyList(s, n)))
//@   ensures @taken_action {C03} pre && sem ==> g_taken(p.G)[action] == (g_taken(G0)[action] || (hdr && (n == 0 || anyList(s, n))))
//@   ensures @no_leak {C03} pre && sem && g_live(p.G) ==> g_A(p.G) == ev_nr(ev)
//@   ensures @dead !g_live(G0) ==> !g_live(p.G) && g_taken(p.G)[action] == g_taken(G0)[action]
//@   ensures @done g_done(p.G) == g_done(G0) && g_rval(p.G) == g_rval(G0)
//@   ensures @fresh fresh(p) && p.nextLabel >= N0 && nonnil(p.labels)
//@   use anyListZero(s) at before loop 1
//@   use semInstList(s, k, conditions) at loop 1 body
//@   use allHoldZero(conditions) at before loop 2
//@   use argsInst(s, k, conditions, i, c) at loop 2 body
//@   use semInst(s, k, conditions, i, c) at loop 2 body
//@   use allHoldStep(conditions, i, c) at loop 2 end
//@   use anyListStep(s, k, conditions, i) at after loop 2
//@   loop 1 binder k
//@     invariant @struct p != nil && nonnil(p.labels) && p.nextLabel >= N0 + 2 && nextSyscall == N0 + 1
//@     invariant @fresh fresh(p)
//@     invariant @done g_done(p.G) == g_done(G0) && g_rval(p.G) == g_rval(G0)
//@     invariant @sem {C03} pre && sem ==> (g_taken(p.G)[action] == (g_taken(G0)[action] || (hdr && anyList(s, k))) && g_taken(p.G)[nextSyscall] == !hdr && g_live(p.G) == (hdr && !anyList(s, k)))
//@     invariant @dead !g_live(G0) ==> !g_live(p.G) && g_taken(p.G)[action] == g_taken(G0)[action] && !g_taken(p.G)[nextSyscall]
//@     invariant @next_A {C03} pre && g_taken(p.G)[nextSyscall] ==> g_tA(p.G)[nextSyscall] == ev_nr(ev)
//@   loop 2 binder i
//@     invariant @struct p != nil && nonnil(p.labels) && p.nextLabel >= noMatch && noMatch >= N0 + 3
//@     invariant @fresh fresh(p)
//@     invariant @done g_done(p.G) == g_done(G0) && g_rval(p.G) == g_rval(G0)
//@     invariant @live {C02 C03} pre && sem ==> g_live(p.G) == (hdr && !anyList(s, k) && allHoldUpTo(conditions, i) && i < len(conditions))
//@     invariant @nomatch {C02 C03} pre && sem ==> g_taken(p.G)[noMatch] == (hdr && !anyList(s, k) && !allHoldUpTo(conditions, i))
//@     invariant @action {C02 C03} pre && sem ==> g_taken(p.G)[action] == (g_taken(G0)[action] || (hdr && anyList(s, k)) || (hdr && !anyList(s, k) && i == len(conditions) && allHoldUpTo(conditions, i)))
//@     invariant @next pre && sem ==> g_taken(p.G)[nextSyscall] == !hdr
//@     invariant @next_A {C03} pre && g_taken(p.G)[nextSyscall] ==> g_tA(p.G)[nextSyscall] == ev_nr(ev)
//@     invariant @dead !g_live(G0) ==> !g_live(p.G) && g_taken(p.G)[action] == g_taken(G0)[action] && !g_taken(p.G)[nextSyscall] && !g_taken(p.G)[noMatch]

// ---- names -> numbers, validation (C01 C03 C07) ----

//@ func (o Operation) isValid() bool   properties C07
//@   ensures @known result == knownOp(o)
//@   loop 1 binder k
//@     invariant @none forall(j, 0, k, Operations[j] != o)
//@     invariant @len len(Operations) == 8 && Operations[0] == "Equal" && Operations[1] == "NotEqual" && Operations[2] == "GreaterThan" && Operations[3] == "LessThan" && Operations[4] == "GreaterOrEqual" && Operations[5] == "LessOrEqual" && Operations[6] == "BitsSet" && Operations[7] == "BitsNotSet"

//@ macro condOK(c) = (c.Argument <= 5 && knownOp(c.Operation))
//@ macro num32(g, name) = uint32(g.arch.SyscallNames[name] | g.arch.SeccompMask)
//@ macro known(g, name) = has(g.arch.SyscallNames, name)
//@ macro entryMatchesE(x) = (ev_nr(ev) == x.Num && (len(x.Conditions) == 0 || anyList(x, len(x.Conditions))))
//@ macro anyEntry(sc, n) = exists(e_, 0, n, entryMatchesE(sc[e_]))
//@ macro namesMatchUpTo(g, k) = exists(i_, 0, k, known(g, g.Names[i_]) && num32(g, g.Names[i_]) == ev_nr(ev))
//@ macro nwcMatchUpTo(g, k) = exists(i_, 0, k, known(g, g.NamesWithCondtions[i_].Name) && num32(g, g.NamesWithCondtions[i_].Name) == ev_nr(ev) && allHoldUpTo(g.NamesWithCondtions[i_].Conditions, len(g.NamesWithCondtions[i_].Conditions)))
//@ macro groupMatches(g) = (namesMatchUpTo(g, len(g.Names)) || nwcMatchUpTo(g, len(g.NamesWithCondtions)))
// what C03/C07 assume of a group: every conditional entry carries at least one condition
//@ macro groupListsNonEmpty(g) = forall(i_, 0, len(g.NamesWithCondtions), len(g.NamesWithCondtions[i_].Conditions) >= 1)
//@ macro entriesValid(sc, n) = forall(e_, 0, n, argsValid(sc[e_]) && forall(a_, 0, len(sc[e_].Conditions), forall(b_, 0, len(sc[e_].Conditions[a_]), knownOp(sc[e_].Conditions[a_][b_].Operation))))
//@ macro entriesNonEmptyLists(sc, n) = forall(e_, 0, n, forall(a_, 0, len(sc[e_].Conditions), len(sc[e_].Conditions[a_]) >= 1))

// Validate (after the fix: argument index and operation are both checked)
//@ func (a ArgumentConditions) Validate() []string   properties C05 C07
//@   ensures @len_iff {C07} (len(result) == 0) == forall(i, 0, len(a), condOK(a[i]))
//@   ensures @fresh own(result)
//@   loop 1 binder k
//@     invariant @problems_iff (len(problems) == 0) == forall(i, 0, k, condOK(a[i]))
//@     invariant @own own(problems)

//@ lemma anyEntryZero(sc []SyscallWithConditions)
//@   ensures !anyEntry(sc, 0)
//@ lemma anyEntryAppend(sc []SyscallWithConditions, sc2 []SyscallWithConditions, x SyscallWithConditions)
//@   ensures len(sc2) == len(sc) + 1 && forall(j, 0, len(sc), sc2[j] == sc[j]) && sc2[len(sc)] == x && len(sc) >= 0 ==> anyEntry(sc2, len(sc2)) == (anyEntry(sc, len(sc)) || entryMatchesE(x))
//@ lemma anyListSingle(x SyscallWithConditions, conds []Condition)
//@   ensures len(x.Conditions) == 1 && x.Conditions[0] == conds ==> anyList(x, len(x.Conditions)) == allHoldUpTo(conds, len(conds))
//@ lemma anyEntryMerge(sc []SyscallWithConditions, sc2 []SyscallWithConditions, idx int, conds []Condition)
//@   ensures 0 <= idx && idx < len(sc) && len(sc2) == len(sc) && forall(j, 0, len(sc), j != idx ==> sc2[j] == sc[j]) && sc2[idx].Num == sc[idx].Num && len(sc[idx].Conditions) >= 1 && len(sc2[idx].Conditions) == len(sc[idx].Conditions) + 1 && forall(j, 0, len(sc[idx].Conditions), sc2[idx].Conditions[j] == sc[idx].Conditions[j]) && sc2[idx].Conditions[len(sc[idx].Conditions)] == conds ==> anyEntry(sc2, len(sc2)) == (anyEntry(sc, len(sc)) || (ev_nr(ev) == sc[idx].Num && allHoldUpTo(conds, len(conds))))
//@ lemma namesStep(g *SyscallGroup, k int, name string)
//@   requires g != nil && 0 <= k && k < len(g.Names) && name == g.Names[k]
//@   ensures namesMatchUpTo(g, k+1) == (namesMatchUpTo(g, k) || (known(g, name) && num32(g, name) == ev_nr(ev)))
//@ lemma namesZero(g *SyscallGroup)
//@   requires g != nil
//@   ensures !namesMatchUpTo(g, 0) && !nwcMatchUpTo(g, 0)
//@ lemma nwcStep(g *SyscallGroup, k int, nc NameWithConditions)
//@   requires g != nil && 0 <= k && k < len(g.NamesWithCondtions) && nc == g.NamesWithCondtions[k]
//@   ensures nwcMatchUpTo(g, k+1) == (nwcMatchUpTo(g, k) || (known(g, nc.Name) && num32(g, nc.Name) == ev_nr(ev) && allHoldUpTo(nc.Conditions, len(nc.Conditions))))

//@ macro namesKnownUpTo(g, k) = forall(i_, 0, k, known(g, g.Names[i_]))
//@ macro namesDistinctUpTo(g, k) = forall(i_, 0, k, forall(h_, 0, i_, g.Names[h_] != g.Names[i_]))
//@ macro namesReprUpTo(g, sc, k) = forall(i_, 0, k, exists(e_, 0, len(sc), sc[e_].Num == num32(g, g.Names[i_]) && len(sc[e_].Conditions) == 0))
//@ macro numsDistinct(sc) = forall(e_, 0, len(sc), forall(f_, 0, e_, sc[f_].Num != sc[e_].Num))
//@ macro nwcOKUpTo(g, k) = forall(i_, 0, k, known(g, g.NamesWithCondtions[i_].Name) && forall(b_, 0, len(g.NamesWithCondtions[i_].Conditions), condOK(g.NamesWithCondtions[i_].Conditions[b_])) && forall(h_, 0, len(g.Names), g.Names[h_] != g.NamesWithCondtions[i_].Name))
//@ macro listOK(l) = forall(b_, 0, len(l), condOK(l[b_]))
//@ macro entryOK(x) = forall(a_, 0, len(x.Conditions), listOK(x.Conditions[a_]))
//@ macro entriesOK(sc) = forall(e_, 0, len(sc), entryOK(sc[e_]))
//@ macro entryListsNonEmpty(x) = forall(a_, 0, len(x.Conditions), len(x.Conditions[a_]) >= 1)
//@ macro entriesListsNonEmpty(sc) = forall(e_, 0, len(sc), entryListsNonEmpty(sc[e_]))
//@ macro nwcNonEmptyUpTo(g, k) = forall(i_, 0, k, len(g.NamesWithCondtions[i_].Conditions) >= 1)

//@ func (g *SyscallGroup) toSyscallsWithConditions() ([]SyscallWithConditions, error)   properties C01 C03 C05 C07
//@   requires g != nil && g.arch != nil
//@   ensures @err_nil_result {C07} result1 != nil ==> len(result0) == 0
//@   ensures @semantics {C01 C03} result1 == nil ==> anyEntry(result0, len(result0)) == groupMatches(g)
//@   ensures @fresh own(result0)
//@   ensures @c07_names {C07} result1 == nil ==> namesKnownUpTo(g, len(g.Names))
//@   ensures @c07_dups {C07} result1 == nil ==> namesDistinctUpTo(g, len(g.Names))
//@   ensures @c07_nwc {C07} result1 == nil ==> nwcOKUpTo(g, len(g.NamesWithCondtions))
//@   ensures @entries_ok {C05 C07} result1 == nil ==> entriesOK(result0)
//@   ensures @lists_nonempty {C03} result1 == nil && nwcNonEmptyUpTo(g, len(g.NamesWithCondtions)) ==> entriesListsNonEmpty(result0)
//@   use namesZero(g) at entry
//@   use anyEntryZero(syscalls) at before loop 1
//@   use namesStep(g, k1, name) at loop 1 body
//@   use nwcStep(g, k2, nc) at loop 2 body
//@   ghost let sc0 = syscalls at loop 2 body
//@   use anyEntryAppend(sc0, syscalls, syscalls[len(sc0)]) at loop 2 end
//@   use anyListSingle(syscalls[len(sc0)], nc.Conditions) at loop 2 end
//@   use anyEntryMerge(sc0, syscalls, idx(check), nc.Conditions) at loop 2 end
//@   loop 1 binder k1
//@     invariant @own own(syscalls) && own(problems) && forall(j, 0, len(syscalls), own(syscalls[j].Conditions))
//@     invariant @uncond forall(j, 0, len(syscalls), len(syscalls[j].Conditions) == 0)
//@     invariant @sem {C01 C03} len(problems) == 0 ==> anyEntry(syscalls, len(syscalls)) == namesMatchUpTo(g, k1)
//@     invariant @known {C07} len(problems) == 0 ==> namesKnownUpTo(g, k1)
//@     invariant @repr {C07} len(problems) == 0 ==> namesReprUpTo(g, syscalls, k1)
//@     invariant @dups {C07} len(problems) == 0 ==> namesDistinctUpTo(g, k1)
//@     invariant @nums {C07} numsDistinct(syscalls)
//@   loop 2 binder k2
//@     invariant @own own(syscalls) && own(problems) && forall(j, 0, len(syscalls), own(syscalls[j].Conditions))
//@     invariant @sem {C01 C03} len(problems) == 0 ==> anyEntry(syscalls, len(syscalls)) == (namesMatchUpTo(g, len(g.Names)) || nwcMatchUpTo(g, k2))
//@     invariant @names {C07} len(problems) == 0 ==> namesKnownUpTo(g, len(g.Names)) && namesDistinctUpTo(g, len(g.Names))
//@     invariant @repr {C07} len(problems) == 0 ==> namesReprUpTo(g, syscalls, len(g.Names))
//@     invariant @nums {C07} numsDistinct(syscalls)
//@     invariant @nwc {C07} len(problems) == 0 ==> nwcOKUpTo(g, k2)
//@     invariant @entries_ok {C05 C07} entriesOK(syscalls)
//@     invariant @lists_nonempty {C03} nwcNonEmptyUpTo(g, k2) ==> entriesListsNonEmpty(syscalls)
