//go:build verif

// Contracts for package seccomp, read by /verif/govc (comment-only file: nothing is compiled).
// Syntax: DESIGN.md section 4.

package seccomp

//@ func (a ArgumentConditions) Validate() []string   properties C07
//@   ensures @len_iff (len(result) == 0) == forall(i, 0, len(a), a[i].Argument <= 5)
//@   ensures @fresh own(result)
//@   loop 1 binder k
//@     invariant @problems_iff (len(problems) == 0) == forall(i, 0, k, a[i].Argument <= 5)
//@     invariant @own own(problems)

//@ func getSyscall(syscalls []SyscallWithConditions, syscall uint32) *SyscallWithConditions   properties C03 C07
//@   returns_elem syscalls
//@   ensures @found result != nil ==> (syscalls[idx(result)].Num == syscall && forall(j, 0, idx(result), syscalls[j].Num != syscall))
//@   ensures @absent result == nil ==> forall(j, 0, len(syscalls), syscalls[j].Num != syscall)
//@   loop 1 binder k
//@     invariant @none_before forall(j, 0, k, syscalls[j].Num != syscall)

// ---------------------------------------------------------------------------
// Layer B: builder primitives (assembler.go). Ghost field G is the state of the
// single-pass forward interpreter (spec/cbpf.smt2) on the ghost event `ev`;
// it is advanced by ghost statements that read what the code actually appended.
// ---------------------------------------------------------------------------

//@ type Program
//@   field G GState

// Assumption (listed in evidence): label counters stay below 2^62 — reaching it needs 2^62 NewLabel calls.
//@ type Label
//@   invariant @label_range 0 - 4611686018427387904 < self && self < 4611686018427387904

//@ macro fresh(p) = freshAbove(p.G, p.nextLabel)

//@ func NewProgram() Program   properties C01 C03 C05 C06
//@   ensures @empty len(result.instructions) == 0 && len(result.jumps) == 0 && result.nextLabel == 1
//@   ensures @labels nonnil(result.labels) && card(result.labels) == 0

//@ func (p *Program) NewLabel() Label   properties C01 C02 C03 C06
//@   requires p != nil
//@   modifies p
//@   ensures @next result == old(p.nextLabel) + 1 && p.nextLabel == result
//@   ensures @frame p.G == old(p.G) && p.instructions == old(p.instructions) && p.jumps == old(p.jumps) && p.labels == old(p.labels)
//@   ensures @fresh fresh(old(p)) ==> fresh(p) && !g_taken(p.G)[result]

//@ func (p *Program) currentIndex() Index   properties C06
//@   requires p != nil
//@   ensures result == len(p.instructions)

//@ func (p *Program) JmpIf(cond bpf.JumpTest, val uint32, trueLabel Label, falseLabel Label)   properties C01 C02 C03 C05 C06
//@   requires p != nil
//@   modifies p
//@   ghost p.G = stepJif(p.G, unbox(p.instructions[len(p.instructions)-1], bpf.JumpIf).Cond, unbox(p.instructions[len(p.instructions)-1], bpf.JumpIf).Val, p.jumps[len(p.jumps)-1].trueLabel, p.jumps[len(p.jumps)-1].falseLabel) at exit
//@   ensures @sem p.G == stepJif(old(p.G), cond, val, trueLabel, falseLabel)
//@   ensures @insn len(p.instructions) == len(old(p.instructions)) + 1 && istype(p.instructions[len(p.instructions)-1], bpf.JumpIf)
//@   ensures @frame p.nextLabel == old(p.nextLabel) && p.labels == old(p.labels)
//@   ensures @fresh fresh(old(p)) && trueLabel <= old(p.nextLabel) && falseLabel <= old(p.nextLabel) ==> fresh(p)

//@ func (p *Program) SetLabel(label Label)   properties C01 C02 C03 C06
//@   requires p != nil && nonnil(p.labels)
//@   modifies p
//@   ghost p.G = stepMark(p.G, label) at exit
//@   ensures @sem p.G == stepMark(old(p.G), label)
//@   ensures @frame p.nextLabel == old(p.nextLabel) && p.instructions == old(p.instructions) && p.jumps == old(p.jumps) && nonnil(p.labels)
//@   ensures @fresh fresh(old(p)) ==> fresh(p)

//@ func (p *Program) JmpIfTrue(cond bpf.JumpTest, val uint32, trueLabel Label)   properties C01 C02 C03 C05 C06
//@   requires p != nil && nonnil(p.labels)
//@   modifies p
//@   ensures @sem p.G == stepMark(stepJif(old(p.G), cond, val, trueLabel, old(p.nextLabel) + 1), old(p.nextLabel) + 1)
//@   ensures @frame p.nextLabel == old(p.nextLabel) + 1 && nonnil(p.labels)
//@   ensures @insn len(p.instructions) == len(old(p.instructions)) + 1
//@   ensures @fresh fresh(old(p)) && trueLabel <= old(p.nextLabel) ==> fresh(p) && !g_taken(old(p.G))[old(p.nextLabel) + 1]

//@ func (p *Program) Ret(action Action)   properties C01 C05 C06
//@   requires p != nil
//@   modifies p
//@   ghost p.G = stepRet(p.G, unbox(p.instructions[len(p.instructions)-1], bpf.RetConstant).Val) at exit
//@   ensures @sem {C01} p.G == stepRet(old(p.G), enc(action))
//@   ensures @insn len(p.instructions) == len(old(p.instructions)) + 1 && isRetOf(p.instructions[len(p.instructions)-1], enc(action))
//@   ensures @frame p.nextLabel == old(p.nextLabel) && p.labels == old(p.labels) && p.jumps == old(p.jumps)
//@   ensures @fresh fresh(old(p)) ==> fresh(p)

//@ func (p *Program) LdHi(arg uint32)   properties C02 C05
//@   requires p != nil
//@   requires @arg_le_5 arg <= 5
//@   modifies p
//@   ghost p.G = stepLd(p.G, unbox(p.instructions[len(p.instructions)-1], bpf.LoadAbsolute).Off) at exit
//@   ensures @sem {C02} p.G == mkG(g_live(old(p.G)), ite(g_live(old(p.G)), hi64(ev_args(ev)[arg]), g_A(old(p.G))), g_done(old(p.G)), g_rval(old(p.G)), g_taken(old(p.G)), g_tA(old(p.G)))
//@   ensures @insn {C05} len(p.instructions) == len(old(p.instructions)) + 1 && validLoad(p.instructions[len(p.instructions)-1])
//@   ensures @frame p.nextLabel == old(p.nextLabel) && p.labels == old(p.labels) && p.jumps == old(p.jumps)
//@   ensures @fresh fresh(old(p)) ==> fresh(p)

//@ func (p *Program) ldSyscallNum()   properties C03 C05
//@   requires p != nil
//@   modifies p
//@   ghost p.G = stepLd(p.G, unbox(p.instructions[len(p.instructions)-1], bpf.LoadAbsolute).Off) at exit
//@   ensures @sem {C03} p.G == mkG(g_live(old(p.G)), ite(g_live(old(p.G)), ev_nr(ev), g_A(old(p.G))), g_done(old(p.G)), g_rval(old(p.G)), g_taken(old(p.G)), g_tA(old(p.G)))
//@   ensures @insn {C05} len(p.instructions) == len(old(p.instructions)) + 1 && validLoad(p.instructions[len(p.instructions)-1])
//@   ensures @frame p.nextLabel == old(p.nextLabel) && p.labels == old(p.labels) && p.jumps == old(p.jumps)
//@   ensures @fresh fresh(old(p)) ==> fresh(p)

//@ func (p *Program) LdLo(arg uint32)   properties C02 C05
//@   requires p != nil
//@   requires @arg_le_5 arg <= 5
//@   modifies p
//@   ghost p.G = stepLd(p.G, unbox(p.instructions[len(p.instructions)-1], bpf.LoadAbsolute).Off) at exit
//@   ensures @sem {C02} p.G == mkG(g_live(old(p.G)), ite(g_live(old(p.G)), lo64(ev_args(ev)[arg]), g_A(old(p.G))), g_done(old(p.G)), g_rval(old(p.G)), g_taken(old(p.G)), g_tA(old(p.G)))
//@   ensures @insn {C05} len(p.instructions) == len(old(p.instructions)) + 1 && validLoad(p.instructions[len(p.instructions)-1])
//@   ensures @frame p.nextLabel == old(p.nextLabel) && p.labels == old(p.labels) && p.jumps == old(p.jumps)
//@   ensures @fresh fresh(old(p)) ==> fresh(p)

// nativeEndian is assigned once by init() (not verified: unsafe); it is one of the two orders.
//@ global nativeEndian immutable
//@ axiom @endian (nativeEndian == binary.LittleEndian) == le && (nativeEndian == binary.BigEndian) == !le

// ---------------------------------------------------------------------------
// Layer P: policy compilation (filter.go)
// ---------------------------------------------------------------------------

// allHold: every condition of the list is satisfied by the ghost event (C02/C03: unsigned 64-bit relations of spec/policy.smt2)
//@ macro allHoldUpTo(list, n) = forall(q_, 0, n, holds(list[q_], ev))
// anyList: one of the first k condition lists of entry s is satisfied
//@ macro anyList(s, k) = exists(j_, 0, k, allHoldUpTo(s.Conditions[j_], len(s.Conditions[j_])))
//@ macro entryMatches(s) = (ev_nr(ev) == s.Num && (len(s.Conditions) == 0 || anyList(s, len(s.Conditions))))
// semValid: what C03/C07 assume of a conditional entry (>= 1 condition per list, implemented operations)
//@ macro semValid(s) = forall(a_, 0, len(s.Conditions), len(s.Conditions[a_]) >= 1 && forall(b_, 0, len(s.Conditions[a_]), knownOp(s.Conditions[a_][b_].Operation)))
//@ macro argsValid(s) = forall(a_, 0, len(s.Conditions), forall(b_, 0, len(s.Conditions[a_]), s.Conditions[a_][b_].Argument <= 5))

// Quantifier bookkeeping, proved once and instantiated explicitly (so that the compile-path obligations are ground).
//@ lemma allHoldZero(list []Condition)
//@   ensures allHoldUpTo(list, 0)
//@ lemma allHoldStep(list []Condition, i int, c Condition)
//@   requires 0 <= i && i < len(list) && c == list[i]
//@   ensures allHoldUpTo(list, i+1) == (allHoldUpTo(list, i) && holds(c, ev))
//@ lemma anyListZero(s SyscallWithConditions)
//@   ensures !anyList(s, 0)
//@ lemma anyListStep(s SyscallWithConditions, k int, list []Condition, n int)
//@   requires 0 <= k && k < len(s.Conditions) && list == s.Conditions[k] && n == len(list)
//@   ensures anyList(s, k+1) == (anyList(s, k) || allHoldUpTo(list, n))
//@ lemma semInst(s SyscallWithConditions, k int, list []Condition, i int, c Condition)
//@   requires 0 <= k && k < len(s.Conditions) && list == s.Conditions[k] && 0 <= i && i < len(list) && c == list[i]
//@   ensures semValid(s) ==> len(list) >= 1 && knownOp(c.Operation)
//@ lemma semInstList(s SyscallWithConditions, k int, list []Condition)
//@   requires 0 <= k && k < len(s.Conditions) && list == s.Conditions[k]
//@   ensures semValid(s) ==> len(list) >= 1
//@ lemma argsInst(s SyscallWithConditions, k int, list []Condition, i int, c Condition)
//@   requires argsValid(s) && 0 <= k && k < len(s.Conditions) && list == s.Conditions[k] && 0 <= i && i < len(list) && c == list[i]
//@   ensures c.Argument <= 5

//@ func (s SyscallWithConditions) Assemble(p *Program, action Label)   properties C02 C03 C05 C07
//@   requires p != nil && nonnil(p.labels)
//@   requires 1 <= action && action <= p.nextLabel
//@   requires fresh(p)
//@   requires @args_valid argsValid(s)
//@   modifies p
//@   let G0 = p.G
//@   let N0 = p.nextLabel
//@   let hdr = ev_nr(ev) == s.Num
//@   let pre = g_live(p.G) && g_A(p.G) == ev_nr(ev)
//@   let sem = semValid(s)
//@   let n = len(s.Conditions)
//@   ensures @live {C03} pre && sem ==> g_live(p.G) == !(hdr && (n == 0 || anyList(s, n)))
//@   ensures @taken_action {C03} pre && sem ==> g_taken(p.G)[action] == (g_taken(G0)[action] || (hdr && (n == 0 || anyList(s, n))))
//@   ensures @no_leak {C03} pre && sem && g_live(p.G) ==> g_A(p.G) == ev_nr(ev)
//@   ensures @dead !g_live(G0) ==> !g_live(p.G) && g_taken(p.G)[action] == g_taken(G0)[action]
//@   ensures @done g_done(p.G) == g_done(G0) && g_rval(p.G) == g_rval(G0)
//@   ensures @fresh fresh(p) && p.nextLabel >= N0 && nonnil(p.labels)
//@   use anyListZero(s) at before loop 1
//@   use semInstList(s, k, conditions) at loop 1 body
//@   use allHoldZero(conditions) at before loop 2
//@   use argsInst(s, k, conditions, i, c) at loop 2 body
//@   use semInst(s, k, conditions, i, c) at loop 2 body
//@   use allHoldStep(conditions, i, c) at loop 2 end
//@   use anyListStep(s, k, conditions, i) at after loop 2
//@   loop 1 binder k
//@     invariant @struct p != nil && nonnil(p.labels) && p.nextLabel >= N0 + 2 && nextSyscall == N0 + 1
//@     invariant @fresh fresh(p)
//@     invariant @done g_done(p.G) == g_done(G0) && g_rval(p.G) == g_rval(G0)
//@     invariant @sem {C03} pre && sem ==> (g_taken(p.G)[action] == (g_taken(G0)[action] || (hdr && anyList(s, k))) && g_taken(p.G)[nextSyscall] == !hdr && g_live(p.G) == (hdr && !anyList(s, k)))
//@     invariant @dead !g_live(G0) ==> !g_live(p.G) && g_taken(p.G)[action] == g_taken(G0)[action] && !g_taken(p.G)[nextSyscall]
//@     invariant @next_A {C03} pre && g_taken(p.G)[nextSyscall] ==> g_tA(p.G)[nextSyscall] == ev_nr(ev)
//@   loop 2 binder i
//@     invariant @struct p != nil && nonnil(p.labels) && p.nextLabel >= noMatch && noMatch >= N0 + 3
//@     invariant @fresh fresh(p)
//@     invariant @done g_done(p.G) == g_done(G0) && g_rval(p.G) == g_rval(G0)
//@     invariant @live {C02 C03} pre && sem ==> g_live(p.G) == (hdr && !anyList(s, k) && allHoldUpTo(conditions, i) && i < len(conditions))
//@     invariant @nomatch {C02 C03} pre && sem ==> g_taken(p.G)[noMatch] == (hdr && !anyList(s, k) && !allHoldUpTo(conditions, i))
//@     invariant @action {C02 C03} pre && sem ==> g_taken(p.G)[action] == (g_taken(G0)[action] || (hdr && anyList(s, k)) || (hdr && !anyList(s, k) && i == len(conditions) && allHoldUpTo(conditions, i)))
//@     invariant @next pre && sem ==> g_taken(p.G)[nextSyscall] == !hdr
//@     invariant @next_A {C03} pre && g_taken(p.G)[nextSyscall] ==> g_tA(p.G)[nextSyscall] == ev_nr(ev)
//@     invariant @dead !g_live(G0) ==> !g_live(p.G) && g_taken(p.G)[action] == g_taken(G0)[action] && !g_taken(p.G)[nextSyscall] && !g_taken(p.G)[noMatch]
