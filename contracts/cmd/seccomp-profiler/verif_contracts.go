//go:build verif

// Contracts for cmd/seccomp-profiler, read by /verif/govc (comment-only file).

package main

//@ macro inList(l, s) = exists(x_, 0, len(l), l[x_] == s)
//@ macro noDup(l) = forall(x_, 0, len(l), forall(y_, 0, x_, l[y_] != l[x_]))

// blacklist / allowList are flag values: arbitrary but fixed during a run
//@ func filterBlacklist(syscalls []string) ([]string, []string)   properties C18
//@   ensures @kept {C18} forall(j, 0, len(result0), !inList(blacklist, result0[j]) && inList(syscalls, result0[j]))
//@   ensures @all_kept {C18} forall(i, 0, len(syscalls), !inList(blacklist, syscalls[i]) ==> inList(result0, syscalls[i]))
//@   ensures @filtered {C18} forall(j, 0, len(result1), inList(blacklist, result1[j]) && inList(syscalls, result1[j]))
//@   ensures @nodup {C18} noDup(syscalls) ==> noDup(result0)
//@   ensures @fresh own(result0) && own(result1)
//@   loop 1 binder k1
//@     invariant @filter nonnil(filter) && forallk(s, filter, has(filter, s) == exists(b, 0, k1, blacklist[b] == s))
//@   loop 2 binder k2
//@     invariant @own own(out) && own(filtered)
//@     invariant @kept forall(j, 0, len(out), !inList(blacklist, out[j]) && exists(i, 0, k2, syscalls[i] == out[j]))
//@     invariant @all_kept forall(i, 0, k2, !inList(blacklist, syscalls[i]) ==> inList(out, syscalls[i]))
//@     invariant @filtered forall(j, 0, len(filtered), inList(blacklist, filtered[j]) && inList(syscalls, filtered[j]))
//@     invariant @nodup noDup(syscalls) ==> noDup(out)

//@ func addWhitelist(archInfo *arch.Info, syscalls []string) ([]string, []string)   properties C18
//@   requires archInfo != nil
//@   ensures @set {C18} forallk(s, "String", inList(result0, s) == (inList(syscalls, s) || (inList(allowList, s) && has(archInfo.SyscallNames, s))))
//@   ensures @nodup {C18} noDup(result0)
//@   ensures @fresh own(result0)
//@   loop 1 binder k1
//@     invariant @m nonnil(m) && forallk(s, m, has(m, s) == exists(i, 0, k1, syscalls[i] == s))
//@   loop 2 binder k2
//@     invariant @m nonnil(m) && forallk(s, m, has(m, s) == (inList(syscalls, s) || exists(a, 0, k2, allowList[a] == s && has(archInfo.SyscallNames, s))))
//@     invariant @own own(added)
//@   loop 3 binder vis
//@     invariant @out own(out) && forallk(s, m, vis[s] == inList(out, s)) && noDup(out)
