//go:build verif

// Contracts for cmd/seccomp-profiler, read by /verif/govc (comment-only file).

package main

//@ macro inList(l, s) = inListS(l, s)
//@ macro noDup(l) = forall(x_, 0, len(l), forall(y_, 0, x_, l[y_] != l[x_]))

// blacklist / allowList are flag values: arbitrary but fixed during a run
//@ func filterBlacklist(syscalls []string) ([]string, []string)   properties C18
//@   ensures @kept {C18} forall(j, 0, len(result0), !inList(blacklist, result0[j]) && inList(syscalls, result0[j]))
//@   ensures @all_kept {C18} forall(i, 0, len(syscalls), !inList(blacklist, syscalls[i]) ==> inList(result0, syscalls[i]))
//@   ensures @filtered {C18} forall(j, 0, len(result1), inList(blacklist, result1[j]) && inList(syscalls, result1[j]))
//@   ensures @nodup {C18} noDup(syscalls) ==> noDup(result0)
//@   ensures @fresh own(result0) && own(result1)
//@   loop 1 binder k1 match range blacklist
//@     invariant @filter nonnil(filter) && forallk(s, filter, has(filter, s) == exists(b, 0, k1, blacklist[b] == s))
//@   loop 2 binder k2 match range syscalls
//@     invariant @own own(out) && own(filtered)
//@     invariant @kept forall(j, 0, len(out), !inList(blacklist, out[j]) && exists(i, 0, k2, syscalls[i] == out[j]))
//@     invariant @all_kept forall(i, 0, k2, !inList(blacklist, syscalls[i]) ==> inList(out, syscalls[i]))
//@     invariant @filtered forall(j, 0, len(filtered), inList(blacklist, filtered[j]) && inList(syscalls, filtered[j]))
//@     invariant @nodup noDup(syscalls) ==> noDup(out)

//@ func addWhitelist(archInfo *arch.Info, syscalls []string) ([]string, []string)   properties C18
//@   requires archInfo != nil
//@   ensures @set {C18} forallk(s, "String", inList(result0, s) == (inList(syscalls, s) || (inList(allowList, s) && has(archInfo.SyscallNames, s))))
//@   ensures @nodup {C18} noDup(result0)
//@   ensures @fresh own(result0)
//@   loop 1 binder k1 match range syscalls
//@     invariant @m nonnil(m) && forallk(s, m, has(m, s) == exists(i, 0, k1, syscalls[i] == s))
//@   loop 2 binder k2 match range allowList
//@     invariant @m nonnil(m) && forallk(s, m, has(m, s) == (inList(syscalls, s) || exists(a, 0, k2, allowList[a] == s && has(archInfo.SyscallNames, s))))
//@     invariant @own own(added)
//@   loop 3 binder vis match range m
//@     invariant @out own(out) && forallk(s, m, vis[s] == inList(out, s)) && noDup(out)

// ghost model of the scanner used by disasm (shared names, see the disasm contract file)
//@ global lines ghost:(Array Int String)
//@ global nlines ghost:Int
//@ global pos ghost:Int
//@ global scanErr ghost:I.error

// getBinaryArch (verified) returns one of three Info values; that their tables are injective (no name with two
// numbers) is a fact about the table literals: ground obligations arch.syscalls*#ground.injective of this check; main
// uses it as an explicit, listed assumption at the call. The other helpers (hash, output, templates) are assumed to
// have no effect on what C18 speaks about; their bodies are not verified.
//@ macro tableInjective(ai) = forallk(a_, ai.SyscallNumbers, forallk(b_, ai.SyscallNumbers, has(ai.SyscallNumbers, a_) && has(ai.SyscallNumbers, b_) && ai.SyscallNumbers[a_] == ai.SyscallNumbers[b_] ==> a_ == b_))
//@ func getBinaryArch(binary string) (*arch.Info, string, error)   properties C18
//@   ensures @one_of_three {C18} result2 == nil ==> result0 != nil && (result0 == arch.I386 || result0 == arch.ARM || result0 == arch.X86_64)
//@ global hin ghost:String
//@ global rall ghost:String
// the hash main hands to doObjdump is the SHA-256 of everything the binary's reader delivers, in hexadecimal - or ""
// when reading failed (hashBinary swallows that error; "" never equals the 64 bytes at the head of a cache file, so
// nothing is reused then: see CI)
//@ func hashBinary(binary string) (string, error)   properties C17
//@   modifies ghost.hin
//@   ensures @exact {C17} result1 == nil ==> result0 == "" || result0 == hexof(sha256of(ghost.rall))
// the output: standard output for "-", else the file named by the -out template. Creating it may truncate a file (the
// cache file itself if the user names it: os.Create's contract covers that, an empty file is never taken for a cache)
//@ func openOutput(goarch string) (io.WriteCloser, error)   properties C17 C18
//@   modifies outFile, ghost.disk, ghost.tmp
//@   ensures @cache_kept_or_emptied ghost.disk == old(ghost.disk) || ghost.disk == ""
// the generated Go file (-format code) is rendered from exactly the list and architecture main computed
//@ func writeGoTemplate(w io.Writer, goarch string, syscalls []string) error   properties C18
//@   ghost let prm = p at before call template.Template.Execute#1
//@   assert @emitted_list {C18} prm.SyscallNames == syscalls && prm.GOARCH == goarch at before call template.Template.Execute#1
// the debug listing sorts the discovered syscalls in place (the caller's slice) and has no other effect
//@ func writeDebugYAML(w io.Writer, syscalls []disasm.Syscall) error   properties C18
//@   modifies syscalls

// ---- C17: the cache of disassemblies (ghost file system, spec/fs.spec) ----
//@ global buf ghost:String
//@ global disk ghost:String
//@ global tmp ghost:String
//@ global written ghost:String
//@ global dump ghost:String
//@ global wfile ghost:String
//@ global cachePath ghost:String
//@ global ran ghost:Bool

// crash invariant: a cache file that starts with this binary's hash is the complete dump of this binary
//@ macro full(hash) = (hash + "\n" + ghost.dump)
//@ macro CI(d, hash) = (strlen(d) >= 64 && substr(d, 0, 64) == hash ==> d == full(hash))

// ghost.cachePath is by definition the path this function computes for the binary (the assumption below introduces the
// name; it is the only thing not proved here). Verified on the body: no effect on the content of the cache file or of
// its temporary file (only a directory is created), no panic (the ten characters cut from the 64 of the path hash).
//@ func cachedDumpFile(binary string) (string, error)   properties C17
//@   modifies ghost.hin
//@   ghost assume result1 == nil ==> result0 == ghost.cachePath
//@   ensures @path {C17} result1 == nil ==> result0 == ghost.cachePath

//@ func writeObjdump(binary, hash, file string) error   properties C17
//@   modifies ghost.disk, ghost.tmp, ghost.buf, ghost.wfile, ghost.written, ghost.ran
//@   ghost ghost.wfile = f.name at after assign out#1
//@   crash_invariant @disk_untouched {C17} file == ghost.cachePath + ".tmp" ==> ghost.disk == old(ghost.disk)
//@   ensures @disk_untouched {C17} file == ghost.cachePath + ".tmp" ==> ghost.disk == old(ghost.disk)
//@   ensures @complete {C17} file == ghost.cachePath + ".tmp" && result == nil ==> ghost.tmp == full(hash)
//@   ensures @direct {C17} file == ghost.cachePath && result == nil ==> ghost.disk == full(hash)

//@ func doObjdump(binary, hash string) (string, error)   properties C17
// the crash invariant at entry is the induction hypothesis over the history of runs (every run re-establishes it: @ci)
//@   requires @ci_at_entry {C17} CI(ghost.disk, hash)
//@   modifies ghost.disk, ghost.tmp, ghost.buf, ghost.wfile, ghost.written, ghost.ran, ghost.hin
//@   crash_invariant @ci {C17} CI(ghost.disk, hash)
//@   ensures @ci {C17} CI(ghost.disk, hash)
//@   ensures @reuse_only_complete {C17} result1 == nil ==> result0 == ghost.cachePath && ghost.disk == full(hash)

//@ macro sortedList(l) = forall(x_, 0, len(l), forall(y_, 0, x_, l[y_] <= l[x_]))
//@ macro foundName(sc, s) = exists(x_, 0, len(sc), sc[x_].Name == s)

//@ func writeProfileConfig(w io.Writer, syscalls []string) error   properties C18
//@   ghost let cfg = config at before call yaml.Marshal#1
//@   assert @emitted_policy {C18} cfg.Seccomp.DefaultAction == seccomp.ActionErrno && len(cfg.Seccomp.Syscalls) == 1 && cfg.Seccomp.Syscalls[0].Action == seccomp.ActionAllow && cfg.Seccomp.Syscalls[0].Names == syscalls && len(cfg.Seccomp.Syscalls[0].NamesWithCondtions) == 0 at before call yaml.Marshal#1

//@ lemma appendOne(l []string, l2 []string, v string)
//@   ensures len(l2) == len(l) + 1 && forall(i, 0, len(l), l2[i] == l[i]) && l2[len(l)] == v && len(l) >= 0 ==> forallk(s, "String", inList(l2, s) == (inList(l, s) || s == v)) && (noDup(l) && !inList(l, v) ==> noDup(l2))

//@ macro tbl() = archInfo.SyscallNumbers
//@ macro namesAre(l, sc) = forallk(s_, "String", inList(l, s_) == foundName(sc, s_))
//@ macro afterBL(l, sc) = forallk(s_, "String", inList(l, s_) == (foundName(sc, s_) && !(len(blacklist) > 0 && inList(blacklist, s_))))
//@ macro finalSet(l, sc) = forallk(s_, "String", inList(l, s_) == ((foundName(sc, s_) && !(len(blacklist) > 0 && inList(blacklist, s_))) || (len(allowList) > 0 && inList(allowList, s_) && has(archInfo.SyscallNames, s_))))

//@ func main()   properties C18
//@   requires ghost.pos == 0 && ghost.nlines >= 0
//@   requires forallk(h, "String", CI(ghost.disk, h))
//@   modifies ghost.pos, ghost.disk, ghost.tmp, ghost.buf, ghost.wfile, ghost.written, ghost.ran, ghost.hin, outFile
//@   ghost assume tableInjective(archInfo) at after assign archInfo#1
//@   hint @table {C18} forall(j, 0, len(syscalls), has(tbl(), syscalls[j].Num) && tbl()[syscalls[j].Num] == syscalls[j].Name) at before loop 1
//@   hint @mtable {C18} forallk(n, m, has(m, n) ==> has(tbl(), n) && m[n].Name == tbl()[n] && foundName(syscalls, m[n].Name)) at after loop 1
//@   hint @mall {C18} forall(j, 0, len(syscalls), has(m, syscalls[j].Num) && m[syscalls[j].Num].Name == syscalls[j].Name) at after loop 1
//@   ghost let names0 = names at loop 2 body
//@   use appendOne(names0, names, s.Name) at loop 2 end
//@   hint @h1 {C18} namesAre(names, syscalls) && noDup(names) at after loop 2
//@   hint @h2 {C18} afterBL(names, syscalls) && noDup(names) at after assign names#2
//@   hint @h2b {C18} afterBL(names, syscalls) && noDup(names) at after assign size#1
//@   hint @h3 {C18} finalSet(names, syscalls) && noDup(names) at before call sort.Strings#1
// what each output format is given is the profile: sorted, duplicate free, and its set is (found - blacklisted) + valid
// allowed names, where `found` is what the listing parser returned (the debug listing may reorder that slice later)
//@   ghost let found = syscalls at after assign syscalls#1
//@   assert @profile {C18} sortedList(call.arg1) && noDup(call.arg1) && finalSet(call.arg1, found) at before call writeProfileConfig#*
//@   assert @profile_code {C18} sortedList(call.arg2) && noDup(call.arg2) && finalSet(call.arg2, found) && call.arg1 == goarch at before call writeGoTemplate#*
//@   loop 1 binder k1 match range syscalls
//@     invariant @m nonnil(m) && forallk(n, m, has(m, n) == exists(j, 0, k1, syscalls[j].Num == n))
//@     invariant @vals forallk(n, m, has(m, n) ==> exists(j, 0, k1, syscalls[j].Num == n && m[n] == syscalls[j]))
//@   loop 2 binder vis match range m
//@     invariant @own own(names)
//@     invariant @from forallk(x, "String", inList(names, x) ==> existsk(n, m, vis[n] && has(m, n) && m[n].Name == x))
//@     invariant @to forallk(n, m, vis[n] ==> inList(names, m[n].Name))
//@     invariant @nodup noDup(names)
