//go:build verif

// Contracts for package disasm, read by /verif/govc (comment-only file).

package disasm

// Ghost model of the text delivered by bufio.Scanner (spec/io.spec): lines[0..nlines) are the lines the scanner
// delivers before it stops; scanErr is non-nil when it stopped because of a read error or an over-long line.
//@ global lines ghost:(Array Int String)
//@ global nlines ghost:Int
//@ global pos ghost:Int
//@ global scanErr ghost:I.error
//@ global fstart ghost:Int
// Monotonicity (C16, last clause): `cut` is an arbitrary number of lines; (snapArr, snapLen) is the value of the result
// list at the moment exactly `cut` lines had been consumed. The loop invariant @cut says that from then on the list
// only grows behind that value; the run is deterministic (clauses `deterministic`, read-only tables), so the state
// after `cut` lines is the result of the run on the text that ends there.
//@ global cut ghost:Int
//@ global snapLen ghost:Int
//@ global snapArr ghost:(Array Int disasm.Syscall)

//@ func lastInstruction(instructions []string) string   properties C16
//@   deterministic C16
//@   ensures @value len(instructions) >= 2 ==> result == instructions[len(instructions) - 2]
//@   ensures @short len(instructions) < 2 ==> result == ""

//@ func isSyscallFunction(function string) bool   properties C16
//@   deterministic C16

//@ func (p *parser) isFunctionCall(line string) bool   properties C16
//@   deterministic C16
//@   requires p != nil
//@   ensures result == contains(line, p.callOp)

//@ func (p *parser) isRawSyscall(line string) bool   properties C16
//@   deterministic C16
//@   requires p != nil
//@   ensures @some result ==> exists(j, 0, len(p.rawSyscallInstructions), contains(line, p.rawSyscallInstructions[j]))

//@ func findSyscallNum(instructions []string, syscall *Syscall, matchers ...*regexp.Regexp) error   properties C16
//@   deterministic C16
//@   requires syscall != nil
//@   modifies syscall
//@   ensures @scope {C16} result == nil ==> exists(j, 0, len(instructions), contains(instructions[j], syscall.Assembly))
//@   ensures @frame syscall.Location == old(syscall.Location) && syscall.Function == old(syscall.Function)
//@   loop 1 match len(instructions) - 1
//@     invariant @struct syscall != nil && i < len(instructions) && i >= 0 - 1 && syscall.Location == old(syscall.Location) && syscall.Function == old(syscall.Function)
//@     decreases i + 1
//@   loop 2 binder k match range matchers
//@     invariant @struct syscall != nil && 0 <= i && i < len(instructions) && line == instructions[i] && syscall.Location == old(syscall.Location) && syscall.Function == old(syscall.Function)

//@ func parseX86_64(p *parser, line, caller string, instructions []string) (*Syscall, error)   properties C16
//@   deterministic C16
//@   requires p != nil
//@   ensures @scope {C16} result0 != nil ==> result1 == nil && (exists(j, 0, len(instructions), contains(instructions[j], result0.Assembly)) || result0.Assembly == "XORL AX, AX" && len(instructions) >= 2 && contains(instructions[len(instructions) - 2], "XORL AX, AX"))

//@ func (p *parser) Parse(objDump string) ([]Syscall, error)   properties C16
//@   deterministic C16
//@   requires p != nil && p.Info != nil
//@   modifies ghost.pos, ghost.snapLen, ghost.snapArr
//@   requires ghost.pos == 0 && ghost.nlines >= 0 
//@   calls p.parse in parseX86_64
//@   ensures @owned {C16 C18} own(result0)
//@   ghost ghost.snapLen = ite(ghost.pos == ghost.cut + 1, len(syscalls), ghost.snapLen) at loop 1 body
//@   ghost ghost.snapArr = ite(ghost.pos == ghost.cut + 1, arr(syscalls), ghost.snapArr) at loop 1 body
//@   ensures @monotone {C16} result1 == nil && 0 <= ghost.cut && ghost.cut < ghost.nlines ==> ghost.snapLen <= len(result0) && forall(j, 0, ghost.snapLen, result0[j] == ghost.snapArr[j])
//@   ensures @no_truncation {C16} ghost.scanErr != nil ==> result1 != nil
//@   ensures @err_no_result {C16} result1 != nil ==> len(result0) == 0
//@   ensures @names {C16} forall(j, 0, len(result0), has(p.SyscallNumbers, result0[j].Num) && p.SyscallNumbers[result0[j].Num] == result0[j].Name)
//@   ghost let sc0 = syscalls at loop 1 body
//@   assert @scope_now {C16} forall(j, 0, len(instructions), exists(m, 0, ghost.pos, instructions[j] == ghost.lines[m] && forall(q, m, ghost.pos, !prefixof("TEXT", ghost.lines[q])))) at before call parseX86_64#1
//@   assert @same_function {C16} exists(m, 0, ghost.pos, contains(ghost.lines[m], syscall.Assembly) && forall(q, m, ghost.pos, !prefixof("TEXT", ghost.lines[q]))) at after assign syscalls#1
//@   assert @append_only {C16} len(syscalls) >= len(sc0) && forall(j, 0, len(sc0), syscalls[j] == sc0[j]) at loop 1 end
//@   loop 1 match s.Scan()
//@     invariant @pos 0 <= ghost.pos && ghost.pos <= ghost.nlines
//@     invariant @cut {C16} ghost.pos > ghost.cut && ghost.cut >= 0 ==> 0 <= ghost.snapLen && ghost.snapLen <= len(syscalls) && forall(j, 0, ghost.snapLen, syscalls[j] == ghost.snapArr[j])
//@     invariant @own own(syscalls) && own(instructions)
//@     invariant @scope {C16} forall(j, 0, len(instructions), exists(m, 0, ghost.pos, instructions[j] == ghost.lines[m] && forall(q, m, ghost.pos, !prefixof("TEXT", ghost.lines[q]))))
//@     invariant @names {C16} forall(j, 0, len(syscalls), has(p.SyscallNumbers, syscalls[j].Num) && p.SyscallNumbers[syscalls[j].Num] == syscalls[j].Name)
//@     decreases ghost.nlines - ghost.pos

//@ func ExtractSyscalls(arch *arch.Info, objDump string) ([]Syscall, error)   properties C16 C18
//@   ensures @owned {C16 C18} own(result0)
//@   requires arch != nil
//@   requires ghost.pos == 0 && ghost.nlines >= 0 
//@   modifies ghost.pos, ghost.snapLen, ghost.snapArr
//@   ensures @monotone {C16} result1 == nil && 0 <= ghost.cut && ghost.cut < ghost.nlines ==> ghost.snapLen <= len(result0) && forall(j, 0, ghost.snapLen, result0[j] == ghost.snapArr[j])
//@   ensures @no_truncation {C16} ghost.scanErr != nil ==> result1 != nil
//@   ensures @err_no_result {C16} result1 != nil ==> len(result0) == 0
//@   ensures @supported {C16} result1 == nil ==> arch.ID == i386Parser.ID || arch.ID == x86_64Parser.ID
//@   ensures @names_i386 {C16 C18} result1 == nil && arch.ID == i386Parser.ID ==> forall(j, 0, len(result0), has(i386Parser.SyscallNumbers, result0[j].Num) && i386Parser.SyscallNumbers[result0[j].Num] == result0[j].Name)
//@   ensures @names_x86_64 {C16 C18} result1 == nil && arch.ID == x86_64Parser.ID ==> forall(j, 0, len(result0), has(x86_64Parser.SyscallNumbers, result0[j].Num) && x86_64Parser.SyscallNumbers[result0[j].Num] == result0[j].Name)
