//go:build verif

// Contracts for cmd/sandbox, read by /verif/govc (comment-only file).

package main

// Ghost trace of the command: has the target been started; did an earlier step fail.
//@ global ran ghost:Bool
//@ global failed ghost:Bool
//@ global buf ghost:String
//@ global disk ghost:String
//@ global tmp ghost:String
//@ global written ghost:String
//@ global dump ghost:String
//@ global wfile ghost:String
//@ global cachePath ghost:String
// ghost kernel state of the loader (spec/kernel.spec), shared with package seccomp's contracts
//@ global cur ghost:Int
//@ global anycur ghost:Int
//@ global locked ghost:Bool
//@ global nnp ghost:(Array Int Bool)
//@ global att ghost:(Array Int Bool)
//@ global priv ghost:Bool
//@ global kwould ghost:Bool
//@ global prctlOK ghost:Bool
//@ global strict ghost:Bool
//@ global nseccomp ghost:Int
//@ global nprctl ghost:Int
//@ global kop ghost:(_ BitVec 64)
//@ global kflags ghost:(_ BitVec 64)
//@ global ka3 ghost:(_ BitVec 64)

// Library contracts specific to this command (trusted).
// os.Exit never returns; the command must not report success after a failed step.
//@ extern func os.Exit(code int)
//@   noreturn
//@   requires @nonzero_on_failure ghost.failed ==> code != 0
// The documented configuration path (spec/75_config.smt2): the YAML loader of go-ucfg turns the WHOLE file into a
// configuration (fileCfg), Unpack assigns the policy that configuration denotes (policyOf). The loader fails for a
// missing or malformed file; it cannot set unexported fields (SyscallGroup.arch stays nil). These contracts are where
// the assumption "go-ucfg's YAML path is faithful, 64-bit operands included" lives; another loader (JSON, a size-limited
// reader, ...) has no such contract and establishes nothing.
//@ extern func yaml.NewConfigWithFile(name string, opts ...ucfg.Option) (*ucfg.Config, error)
//@   ensures result1 == nil ==> result0 != nil && cfgOf(*result0) == fileCfg(name)
//@ extern func os.ReadFile(name string) ([]byte, error)
//@   ensures result1 == nil ==> bytesCfg(result0) == fileCfg(name)
//@ extern func yaml.NewConfig(in []byte, opts ...ucfg.Option) (*ucfg.Config, error)
//@   ensures result1 == nil ==> result0 != nil && cfgOf(*result0) == bytesCfg(in)
//@ extern func (c *ucfg.Config) Unpack(to interface{}, options ...ucfg.Option) error
//@   modifies to
//@   ensures result == nil ==> forall(i, 0, len(to.Seccomp.Syscalls), to.Seccomp.Syscalls[i].arch == nil)
//@   ensures result == nil ==> to.Seccomp == policyOf(cfgOf(*c))
//@ extern func flag.StringVar(p *string, name string, value string, usage string)
//@ extern func flag.BoolVar(p *bool, name string, value bool, usage string)

//@ func parsePolicy() (*seccomp.Policy, error)   properties C14 C15
//@   ensures @result {C15} result1 == nil ==> result0 != nil && forall(i, 0, len(result0.Syscalls), result0.Syscalls[i].arch == nil)
//@   ensures @documented_path {C14 C15} result1 == nil ==> *result0 == policyOf(fileCfg(policyFile))
//@   ensures @error {C15} result1 != nil ==> result0 == nil

//@ func main()   properties C15
//@   requires !ghost.ran && !ghost.failed && ghost.att == noThreads
//@   modifies ghost.att, ghost.nseccomp, ghost.kop, ghost.kflags, ghost.ka3, ghost.strict, ghost.nnp, ghost.nprctl, ghost.locked, ghost.cur, ghost.anycur, ghost.ran, ghost.failed, ghost.buf, ghost.disk, ghost.tmp, ghost.written
//@   ghost ghost.failed = ghost.failed || len(args) == 0 at after assign args#1
//@   ghost ghost.failed = ghost.failed || err != nil at after assign policy#1
//@   ghost ghost.failed = ghost.failed || err != nil at after assign err#1
//@   assert @exec_only_after_load {C15} !ghost.failed && !ghost.ran && ghost.att == allThreads && filter.Policy == *policy && filter.Flag & 1 != 0 at before call exec.Cmd.Run#1
//@   assert @policy_of_the_file {C15} filter.Policy == policyOf(fileCfg(policyFile)) at before call seccomp.LoadFilter#1
//@   ensures @ran_under_policy {C15} ghost.ran ==> ghost.att == allThreads
