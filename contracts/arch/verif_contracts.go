//go:build verif

// Contracts for package arch, read by /verif/govc (comment-only file).

package arch

//@ func GetInfo(name string) (*Info, error)   properties C07 C12 C19
//@   ensures @ok {C07} result1 == nil ==> result0 != nil && len(result0.SyscallNames) > 0
//@   ensures @err {C07} result1 != nil ==> result0 == nil
