//go:build verif

// Contracts for package arch, read by /verif/govc (comment-only file).

package arch

//@ func GetInfo(name string) (*Info, error)   properties C07 C12 C19
//@   deterministic C13
//@   frame_props C13
//@   ensures @ok {C07} result1 == nil ==> result0 != nil && len(result0.SyscallNames) > 0
//@   ensures @err {C07} result1 != nil ==> result0 == nil
//@   let key = ite(name == "", runtime.GOARCH, tolower(name))
//@   ensures @lookup {C12} result1 == nil ==> has(arches, key) && result0 == arches[key]
//@   ensures @unsupported {C12 C19} (result1 != nil) == (!has(arches, key) || len(arches[key].SyscallNames) == 0)

// invert: under the precondition (no two numbers with the same name) the result is the inverse map, whatever the
// iteration order (the postcondition determines the result: deterministic).
//@ func invert(in map[int]string) map[string]int   properties C12 C13
//@   deterministic C13
//@   determined
//@   requires @injective {C12} forallk(a, in, forallk(b, in, has(in, a) && has(in, b) && in[a] == in[b] ==> a == b))
//@   ensures @inverse {C12 C13} forallk(k, in, has(in, k) ==> has(result, in[k]) && result[in[k]] == k)
//@   ensures @domain {C12 C13} forallk(s, result, has(result, s) ==> existsk(k, in, has(in, k) && in[k] == s))
//@   loop 1 binder vis match range in
//@     invariant @nonnil nonnil(out)
//@     invariant @inverse forallk(k, in, vis[k] ==> has(out, in[k]) && out[in[k]] == k)
//@     invariant @domain forallk(s, out, has(out, s) ==> existsk(k, in, vis[k] && in[k] == s))
