#!/bin/sh
# usage: tools/tryseed.sh <patch> <PROP>...   applies the patch to /repo, runs the checks, reverts
patch=$1; shift
cd /repo && git apply "$patch" || exit 2
cd /verif
for p in "$@"; do bin/govc check $p 2>&1 | grep -v "^note" | tail -7; echo "exit=$?"; done
git -C /repo checkout -- . 
git -C /repo status --short | head -3
