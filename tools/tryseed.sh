#!/bin/sh
# usage: tools/tryseed.sh <patch> <PROP>...   applies the patch to /repo, runs the checks, reverts.
# Evidence and replay files of these runs go to a scratch directory (GOVC_OUT), never to /verif/evidence:
# committed evidence must come from the unchanged tree.
patch=$1; shift
test -z "$(git -C /repo status --porcelain)" || { echo "/repo has uncommitted changes (commit the contract files first)"; exit 2; }
cd /repo && git apply "$patch" || exit 2
cd /verif
out=$(mktemp -d /tmp/tryseed.XXXXXX)
for p in "$@"; do GOVC_OUT=$out bin/govc check $p 2>&1 | grep -v "^note" | grep "VIOLATION\|KNOWN-FINDING\|tier=\|UNDECIDED" | cut -c1-300 | tail -12; done
rm -rf $out
git -C /repo checkout -- .
git -C /repo clean -fdq
git -C /repo status --short | head -3
