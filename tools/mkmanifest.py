#!/usr/bin/env python3
# Regenerates /verif/MANIFEST.json from the table below (kept in one place so it stays valid).
import json, subprocess
props = [json.loads(l)['id'] for l in open('/verif/properties.jsonl')]

COMMON_NOTE = ("Trusted: spec library /verif/spec (seccomp_data layout, cBPF semantics S-fwd/S-std, policy meaning), govc itself, SMT solvers; "
  "meta-theory axioms MT-3 (block composition) and MT-R (a resolved program that simulates the label-level program returns what its single-pass interpretation returns; assumes every label is set once); the contract of Program.Assemble (label resolution) is proved under C06 and used here; "
  "int is 64-bit, slice lengths < 2^56, label counters < 2^62; nativeEndian is one of the two byte orders.")
TECH = "contract-based deductive verification: VCs generated from the Go AST of the real functions (contracts in //@ files), loop invariants, ghost cBPF interpreter state, lemmas; discharged by z3/cvc5"
KNOTE = "Trusted: the kernel/runtime model of /verif/spec/kernel.spec (K-prctl, K-seccomp-filter incl. the refused-thread-sync return value and atomic TSYNC, K-seccomp-strict, R-sched: thread may change before any system call unless LockOSThread); x/net bpf.Assemble contract (one raw instruction per instruction, relation `encodes` uninterpreted); value model of pointers (the hand-over states the pointee of SockFprog.Filter equals sockFilter[0], not pointer identity); SYS_SECCOMP=317 / SYS_PRCTL=157 (linux/amd64 build context)."
CLAIMED = {
 "C01": dict(
   text="Proof for all policies, all events (ghost event: every 32-bit nr, any args) and all architectures with tables (arch.Info symbolic): postcondition of Policy.Assemble 'run(result) = decisionRel(policy, event)' = action of the first matching group else default, errno encoded with EPERM; carried by contracts of SyscallGroup.assemble, toSyscallsWithConditions (names->numbers, any number of names), SyscallWithConditions.Assemble, Program.Ret/JmpIf/... with loop invariants over groups, names, lists; no bound on sizes.",
   note=COMMON_NOTE, technique=TECH, ref="7 C01"),
 "C02": dict(
   text="Proof, for all 2^64 operands x 2^64 arguments x argument index 0-5 x both byte orders x all eight operations: the inner-loop invariant of SyscallWithConditions.Assemble (live <=> all conditions so far hold as unsigned 64-bit relations) is preserved by the code emitted for each operation; LdHi/LdLo proved to address the correct word of seccomp_data for either layout. Bit-vector obligations are decided exactly (no sampling, no bound).",
   note=COMMON_NOTE, technique=TECH, ref="7 C02"),
 "C03": dict(
   text="Proof: an entry matches iff number equal and some list has all conditions true (loop invariants of SyscallWithConditions.Assemble over lists and conditions); on failure control falls through with the accumulator equal to the syscall number again (no_leak postcondition), toSyscallsWithConditions preserves the meaning of the group while merging lists per syscall (pointer write through getSyscall modelled), groups evaluated in order (Policy.Assemble invariant polRel). Stated for entries whose lists are non-empty (C07's carve-out).",
   note=COMMON_NOTE, technique=TECH, ref="7 C03"),
 "C04": dict(
   text="Proof for all policies, both encodings of the architecture jump (jumpN<=255 and >255 decided symbolically) and all events: foreign arch -> default action, x86_64 with nr >=u 0x40000000 -> ERRNO|ENOSYS, independent of the rules (the group blocks are opaque in these obligations). Long variant stated for programs below 2^32 instructions.",
   note=COMMON_NOTE, technique=TECH, ref="7 C04"),
 "C05": dict(
   text="Proof: every program returned with nil error and <= 4096 instructions satisfies kernelAccepts (transcription of bpf_check_classic + seccomp_check_filter for the emitted kinds: non-empty, last insn ret, aligned in-record 32-bit loads, all jumps land inside); builder invariant progOK carried through every primitive; return values confined to the ghost set of values passed to Ret (group level).",
   note=COMMON_NOTE+" Encodability by bpf.Assemble is assumed from the instruction kinds (x/net contract). The policy-level closed return set is proved at group level (retsInSet) and for the x32/default returns by the prologue hints; the quantified union over groups (retsActUpTo) is an invariant of Policy.Assemble.", technique=TECH, ref="7 C05"),
 "C06": dict(
   text="Proof for all label-level programs satisfying the builder's representation invariant (recorded jumps = the conditional jumps, in order; label positions inside the program), any number of instructions, jumps and labels, any distances: Program.Assemble establishes the simulation relation `sim` between the label-level program and the resolved one - a strictly increasing ghost position map, every other instruction in place and directly followed by its successor, every conditional jump keeps its test and each branch lands on the moved position of the first position of its label behind the jump, on a copy of the return found there, or on an unconditional jump to it - by a loop invariant over the jumps resolved so far; destination, computeSkipN, insertBridge (slice insertion, bridge selection, 32-bit skip) and updateIndices (three loops incl. a map range writing through the map) are verified against functional contracts; skips fit 8 bits (automatic truncation obligations); the result is closed (all jumps land inside) with returns from the builder's set; the representation invariant is established by NewProgram and preserved by every primitive and carried by the callers' loop invariants. The meta-theorem MT-R turns `sim` into run(result) == outcome of the single-pass interpretation.",
   note=COMMON_NOTE+" MT-R is proved on paper (induction on the execution), not by the solver; its hypothesis that the ghost interpreter state G mirrors the structure is by construction of the primitives' ghost statements (they read what the code appended), its hypothesis that each label is set at most once holds for every caller in the package by inspection and is not checked. Programs below 2^32 - 2 instructions (explicit assume in the loop: 64 GiB of interface values). That a valid policy never makes Assemble fail (no backward jump, no useless jump) is not proved.", technique=TECH+"; ghost position map and witness arrays", ref="7 C06"),
 "C07": dict(
   text="Proof of (a) no panic: all automatically generated safety obligations (index, nil map, nil deref, type assertion, overflow, truncation) on the compile path for arbitrary policy values; (b) error => no program; (c) each listed defect => error (Policy.Validate, toSyscallsWithConditions, ArgumentConditions.Validate incl. unknown operations, GetInfo). Clause (d) 'valid policies are accepted' is NOT proved (needs Program.Assemble's no-error clause); the witness family exercises it.",
   note=COMMON_NOTE+" Groups' unexported arch field is assumed nil (policies constructed through the Go API).", technique=TECH, ref="7 C07"),
 "C12": dict(
   text="Proof over finite data (exhaustive, back end constfold + SMT for the two functions): ground obligations generated from the AST of arch/zsyscalls.go, info.go, zarches.go on every run: for each of the five tables the precondition of invert (no name with two numbers) holds, numbers in [0,2^30), every (name, number) pair agrees with each vendored oracle (kernel unistd headers, Go syscall and x/sys tables) wherever the oracle lists the name, each auditArch* constant equals AUDIT_ARCH_* computed from linux/audit.h + elf-em.h, alias keys resolve to the stated Info, table-less architectures are unsupported. invert is verified against its contract (inverse + domain, for any iteration order); GetInfo against 'lower-case the name, look it up in arches, error iff absent or table-less'.",
   note="Trusted: oracle files under /verif/oracle (provenance listed there; headers are Linux 6.1, tables v6.11: agreement is checked wherever the oracle lists the name); strings.ToLower contract; the generator mk_syscalls_linux.go is not verified.", technique="contract-based verification + ground obligations over repository literals (exact evaluation)", ref="7 C12"),
 "C14": dict(
   text="Proof of the code-side clauses: Action.Unpack / Operation.Unpack verified against 'result depends only on ToLower(s); a known name yields exactly its constant, an unknown name yields an error and leaves the value unchanged' (map-range loop with visited-set invariant; early return order-independent because names are distinct), String against the name table, round-trip lemmas over these contracts; ground obligations: actionNames maps exactly the seven documented names to the UAPI constants, Operations lists the eight names (distinct under case folding), and for every exported field of Policy/SyscallGroup/NameWithConditions/Condition the config, yaml and json keys coincide.",
   note="Not decided by contracts: go-ucfg / yaml.v2 / encoding/json internals (reflection) incl. numeric fidelity for operands >= 2^63 - assumed via library contracts 'a field is written/read under its tag key'; the replay harness exercises the real libraries only to confirm a failed obligation. ToLower instances on the literal names are assumed.", technique="contract-based verification + ground obligations over struct tags and name tables", ref="7 C14"),
 "C19": dict(
   text="Proof over finite data: for every GOOS/GOARCH examined (quick: 7 targets, thorough: all of `go tool dist list` that type-check, 44 on the unchanged tree) the module is loaded under that build context and ground obligations are generated from the type-checker's constant values: the eight actions, two filter flags, EPERM/ENOSYS, PR_SET_NO_NEW_PRIVS and the seccomp modes equal the UAPI oracle; on non-Linux targets the three loader stubs contain no call expression and Supported is 'return false'; GOARCH has tables iff it is amd64/386/arm/arm64, else GetInfo(\"\") errs by its verified contract and Policy.Assemble propagates the error (verified postcondition).",
   note="Trusted: vendored UAPI headers (/verif/oracle); MIPS ENOSYS=89 from kernel sources (header not in the image). Same program wherever compiled additionally relies on determinism (C13).", technique="ground obligations from go/types constant evaluation per build context + contracts", ref="7 C19"),
 "C16": dict(
   text="Proof for all disassembly texts (the text is a ghost sequence of arbitrary strings delivered by the scanner): (a) totality: every automatically generated no-panic obligation of Parse, parseX86_64, findSyscallNum, lastInstruction, isRawSyscall, isFunctionCall, isSyscallFunction, ExtractSyscalls (string slicing, fields[i], matches[i], nil derefs) is discharged with no precondition on the text; both loops have proved decreases clauses; (b) scanner error => non-nil error and no result; (c) function scope: loop invariant 'every element of the instruction window is a line after the last TEXT marker', findSyscallNum/parseX86_64 only take Assembly from that window, asserted at the append; (d) every reported (Num, Name) is an entry of the table; (e) the result list is append-only within a run.",
   note="Trusted: library contracts in spec/io.spec (bufio.Scanner delivers the ghost lines, Err() non-nil exactly when it stopped early; strings.Fields/Contains/HasPrefix, regexp.FindStringSubmatch returns a substring match). Regular expressions are uninterpreted. Monotonicity across texts (appending functions never removes results) follows from (e) + the reset of the window at TEXT + determinism by a fold argument that is not machine-checked; the replay family exercises it.", technique=TECH, ref="7 C16"),
 "C08": dict(
   text="Proof of the hand-over clause only: sockFilter copies Op/Jt/Jf/K of every raw instruction (loop invariant), at the seccomp call the SockFprog has Len == len(sockFilter) == number of compiled instructions with no uint16 truncation (automatic safe:trunc obligation) and Filter points at element 0, each element being the encoding of the compiled instruction at the same index; composed with C01-C05 the array the kernel reads encodes a program whose meaning is the policy's decision. That the running kernel then decides accordingly is NOT decided by contracts: it is the axiom K-run (no probe syscalls are issued by this check).",
   note=KNOTE+" The first sentence of the property (decisions of the running kernel for probe syscalls) is an assumption, not a proved clause.", technique=TECH, ref="7 C08"),
 "C09": dict(
   text="Proof against the ghost kernel model: LoadFilter returns nil only if the seccomp call returned (0, errno 0), in which case the filter is attached to the calling thread and, with TSYNC, to all threads; every refusal (errno, or positive thread id of a refused thread-sync) yields a non-nil error and leaves the attachment state unchanged; if the seccomp call is not reached (policy or encoding error) no prctl has succeeded and nothing is attached; Supported performs exactly one seccomp(STRICT, flags != 0) call which changes no state.",
   note=KNOTE+" What the kernel actually does in each situation is the model, not a theorem.", technique=TECH+"; ghost process state (threads, no_new_privs, attachment)", ref="7 C09"),
 "C10": dict(
   text="Proof of the code-side clauses: exactly one seccomp(2) call on success, with op == SECCOMP_SET_MODE_FILTER and the flag word equal to zero_extend(filter.Flag) (no masking, reordering or constant), FilterFlagTSync == 1 and FilterFlagLog == 2 (ground, C19); success is recognised correctly (refused thread-sync is an error); without TSYNC exactly the calling thread is attached. That TSYNC reaches every running, blocked or nascent thread under every interleaving is the axiom K-seccomp-filter (single atomic system call): the `schedules` quantifier is discharged by that axiom, not by exploration.",
   note=KNOTE, technique=TECH+"; ghost process state", ref="7 C10"),
 "C11": dict(
   text="Proof under R-sched (the current OS thread is havocked before every system call unless the goroutine is locked): NoNewPrivs requested => at the seccomp call the bit is set on the installing thread (assert nnp_before_install), hence an unprivileged valid load succeeds; not requested => no prctl at all and the bit map is unchanged; not requested, unprivileged, bit clear => error and nothing attached. Deferred UnlockOSThread is executed by the symbolic executor at every return.",
   note=KNOTE+" Whether the Go scheduler really migrates between the calls is not decided (R-sched over-approximates all schedules).", technique=TECH+"; ghost thread-affinity state", ref="7 C11"),
 "C15": dict(
   text="Proof over a ghost trace of cmd/sandbox main: at the only process creation (cmd.Run) the policy file was parsed without error, LoadFilter returned nil for a filter built from exactly the parsed policy with the thread-sync flag (hence, by LoadFilter's verified contract, attached to all threads), and no earlier step failed; every failure path reaches os.Exit with a non-zero status without passing cmd.Run (os.Exit is modelled as non-returning with precondition 'failed => code != 0'); *policy is only dereferenced when non-nil.",
   note="Trusted: go-ucfg loader contract (error for missing/malformed file, cannot set unexported fields), os.Exit never returns, exec.Cmd.Run starts the target; that the exec'ed image inherits the filter and observes the policy's decisions is the kernel axiom K-exec plus C01-C05/C08 - not decided here.", technique=TECH+"; ghost trace", ref="7 C15"),
 "C17": dict(
   text="Proof in a ghost file-system model (crash may occur after any effect; buffered writers may hand any prefix to the file at any time; the disassembler may fail after any prefix of its output): crash invariant CI 'a cache file that starts with this binary's hash is the complete dump' is asserted automatically after every callee that can change the cache file and at every return of doObjdump/writeObjdump, error returns included; the early 'use cache' return is only taken when the first 64 bytes equal the hash, hence (with CI) the reused file is complete; a nil return means the cache file is the complete dump.",
   note="Trusted: spec/fs.spec (os.Create truncates, os.Rename is atomic, bufio may flush any prefix, exec.Cmd.Run writes a prefix of the tool's output and returns nil only for all of it), sha256 collision freedom, single profiler process (no concurrent runs), CI at entry as induction hypothesis over the history of runs.", technique=TECH+"; ghost file system with crash points", ref="7 C17"),
 "C18": dict(
   text="Proof: filterBlacklist returns exactly the elements not black-listed (order kept, no duplicates introduced), addWhitelist returns a duplicate-free list whose set is syscalls plus the allow-list names valid for the architecture (three loops incl. two map ranges with visited-set invariants), and in main the assertion at the point of output: names is sorted, duplicate free and its set equals (found - blacklisted) + valid allowed names, for all discovered lists and flag values; writeProfileConfig marshals Policy{errno, [{allow, names}]} (asserted on the value passed to yaml.Marshal), whose meaning is given by C01.",
   note="Trusted: contracts of getBinaryArch/hashBinary/openOutput/writeGoTemplate/writeDebugYAML (assumed, bodies not verified), sort.Strings (sorted permutation), yaml.Marshal / text/template output text (library), injectivity of the syscall tables (C12). That the YAML text reads back to the same policy is C14.", technique=TECH, ref="7 C18"),
 "C13": dict(
   text="Proof of three kinds of obligations over the compile, lookup and text-form functions: (1) frame: every store and append is into memory allocated by the call (ownership bit of slices, generated automatically at each store/append/copy) or into what `modifies` lists; pointer parameters not listed keep their pointee; Policy.Assemble changes nothing but p.arch (nil -> GetInfo result); (2) determinism discipline: no goroutine, channel, select, clock, random or environment access in any of these functions, and every map-range loop (invert, Action.Unpack) belongs to a function whose postconditions are proved to determine the result (uniqueness obligation: two outcomes satisfying all ensures clauses are equal); (3) the package-level data these functions read is never assigned, mutated or address-taken outside init() anywhere in the module (ground obligations). Hence equal inputs give identical results in any call history and process, and concurrent compilations of distinct policy values have disjoint write sets and read only immutable shared data.",
   note="Race freedom is concluded from footprint disjointness by the Go memory model (data-race-free programs are sequentially consistent): a trusted principle; no schedule is executed. Concurrent compilation of the SAME policy value (write/write race on p.arch) is outside the property. Slices follow a value model with an ownership bit; aliasing through copied slice headers is refused, not modelled.", technique=TECH+"; frame/ownership obligations; uniqueness-of-postcondition obligations; ground obligations", ref="7 C13"),
}
NA_REASON = "check not built yet (work in progress; DESIGN.md section 7 describes the planned contracts)"

def head(repo):
    return subprocess.run(["git","-C",repo,"log","--format=%H","--grep=^verif:","-n","20"],capture_output=True,text=True).stdout.split()

m = {
 "version": 1,
 "setup_cmd": "./setup.sh",
 "hooks": {
   "guard": "verif",
   "enable": "build tag: the checks load /repo with -tags=verif; the hook files are comment-only contract files (//go:build verif), nothing executable is added",
   "baseline_off_cmd": "cd /repo && go test -vet=off -count=1 ./...",
   "source_commits": head("/repo"),
   "add_only": True,
 },
 "engines": [{"name":"govc","path":"/verif/govc","serves_properties":sorted(CLAIMED),
   "kind_free_text":"contract-based deductive verifier for Go written for this task: reads //@ contracts (requires/ensures/modifies/loop invariants/ghost state/lemmas) from verif-tagged comment files in /repo, generates verification conditions by symbolic execution of the typed AST of the real functions (calls replaced by callee contracts, loops cut at invariants, no-panic/overflow/frame obligations generated automatically), discharges them with z3 5.1 / cvc5 / z3 4.8"}],
 "checks": [],
 "not_applicable": [],
 "notes": "Every check: exit 0 held, exit 1 + VIOLATION line, exit 3 + UNDECIDED line when the engine cannot decide (unsupported construct, vacuity guard). Known findings: /verif/known_findings.json.",
}
for p in props:
    if p in CLAIMED:
        c = CLAIMED[p]
        m["checks"].append({
          "property_id": p,
          "quick_cmd": f"bin/govc check {p} --tier quick",
          "thorough_cmd": f"bin/govc check {p} --tier thorough",
          "evidence_file": f"/verif/evidence/{p}.json",
          "replay_cmd_template": "bin/govc replay {path}",
          "engine": "govc",
          "level_claimed": {"category": c.get("category","proof"), "text": c["text"], "design_ref": "DESIGN.md section "+c["ref"]},
          "level_note": c["note"],
          "technique": c["technique"],
        })
    else:
        m["not_applicable"].append({"property_id": p, "reason": NA_REASON})
json.dump(m, open('/verif/MANIFEST.json','w'), indent=1)
print("claimed:", sorted(CLAIMED))
