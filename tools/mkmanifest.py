#!/usr/bin/env python3
# Regenerates /verif/MANIFEST.json from the table below (kept in one place so it stays valid).
import json, subprocess
props = [json.loads(l)['id'] for l in open('/verif/properties.jsonl')]

COMMON_NOTE = ("Trusted: spec library /verif/spec (seccomp_data layout, cBPF semantics S-fwd/S-std, policy meaning), govc itself, SMT solvers; "
  "meta-theory axiom MT-3 (block composition); the contract of Program.Assemble (label resolution, property C06) is used, not re-proved, here; "
  "int is 64-bit, slice lengths < 2^56, label counters < 2^62; nativeEndian is one of the two byte orders.")
TECH = "contract-based deductive verification: VCs generated from the Go AST of the real functions (contracts in //@ files), loop invariants, ghost cBPF interpreter state, lemmas; discharged by z3/cvc5"
CLAIMED = {
 "C01": dict(
   text="Proof for all policies, all events (ghost event: every 32-bit nr, any args) and all architectures with tables (arch.Info symbolic): postcondition of Policy.Assemble 'run(result) = decisionRel(policy, event)' = action of the first matching group else default, errno encoded with EPERM; carried by contracts of SyscallGroup.assemble, toSyscallsWithConditions (names->numbers, any number of names), SyscallWithConditions.Assemble, Program.Ret/JmpIf/... with loop invariants over groups, names, lists; no bound on sizes.",
   note=COMMON_NOTE, technique=TECH, ref="7 C01"),
 "C02": dict(
   text="Proof, for all 2^64 operands x 2^64 arguments x argument index 0-5 x both byte orders x all eight operations: the inner-loop invariant of SyscallWithConditions.Assemble (live <=> all conditions so far hold as unsigned 64-bit relations) is preserved by the code emitted for each operation; LdHi/LdLo proved to address the correct word of seccomp_data for either layout. Bit-vector obligations are decided exactly (no sampling, no bound).",
   note=COMMON_NOTE, technique=TECH, ref="7 C02"),
 "C03": dict(
   text="Proof: an entry matches iff number equal and some list has all conditions true (loop invariants of SyscallWithConditions.Assemble over lists and conditions); on failure control falls through with the accumulator equal to the syscall number again (no_leak postcondition), toSyscallsWithConditions preserves the meaning of the group while merging lists per syscall (pointer write through getSyscall modelled), groups evaluated in order (Policy.Assemble invariant polRel). Stated for entries whose lists are non-empty (C07's carve-out).",
   note=COMMON_NOTE, technique=TECH, ref="7 C03"),
 "C04": dict(
   text="Proof for all policies, both encodings of the architecture jump (jumpN<=255 and >255 decided symbolically) and all events: foreign arch -> default action, x86_64 with nr >=u 0x40000000 -> ERRNO|ENOSYS, independent of the rules (the group blocks are opaque in these obligations). Long variant stated for programs below 2^32 instructions.",
   note=COMMON_NOTE, technique=TECH, ref="7 C04"),
 "C05": dict(
   text="Proof: every program returned with nil error and <= 4096 instructions satisfies kernelAccepts (transcription of bpf_check_classic + seccomp_check_filter for the emitted kinds: non-empty, last insn ret, aligned in-record 32-bit loads, all jumps land inside); builder invariant progOK carried through every primitive; return values confined to the ghost set of values passed to Ret (group level).",
   note=COMMON_NOTE+" Encodability by bpf.Assemble is assumed from the instruction kinds (x/net contract). The policy-level closed return set is proved at group level (retsInSet) and for the x32/default returns by the prologue hints; the quantified union over groups (retsActUpTo) is an invariant of Policy.Assemble.", technique=TECH, ref="7 C05"),
 "C07": dict(
   text="Proof of (a) no panic: all automatically generated safety obligations (index, nil map, nil deref, type assertion, overflow, truncation) on the compile path for arbitrary policy values; (b) error => no program; (c) each listed defect => error (Policy.Validate, toSyscallsWithConditions, ArgumentConditions.Validate incl. unknown operations, GetInfo). Clause (d) 'valid policies are accepted' is NOT proved (needs Program.Assemble's no-error clause); the witness family exercises it.",
   note=COMMON_NOTE+" Groups' unexported arch field is assumed nil (policies constructed through the Go API).", technique=TECH, ref="7 C07"),
}
NA_REASON = "check not built yet (work in progress; DESIGN.md section 7 describes the planned contracts)"

def head(repo):
    return subprocess.run(["git","-C",repo,"log","--format=%H","--grep=^verif:","-n","20"],capture_output=True,text=True).stdout.split()

m = {
 "version": 1,
 "setup_cmd": "./setup.sh",
 "hooks": {
   "guard": "verif",
   "enable": "build tag: the checks load /repo with -tags=verif; the hook files are comment-only contract files (//go:build verif), nothing executable is added",
   "baseline_off_cmd": "cd /repo && go test -vet=off -count=1 ./...",
   "source_commits": head("/repo"),
   "add_only": True,
 },
 "engines": [{"name":"govc","path":"/verif/govc","serves_properties":sorted(CLAIMED),
   "kind_free_text":"contract-based deductive verifier for Go written for this task: reads //@ contracts (requires/ensures/modifies/loop invariants/ghost state/lemmas) from verif-tagged comment files in /repo, generates verification conditions by symbolic execution of the typed AST of the real functions (calls replaced by callee contracts, loops cut at invariants, no-panic/overflow/frame obligations generated automatically), discharges them with z3 5.1 / cvc5 / z3 4.8"}],
 "checks": [],
 "not_applicable": [],
 "notes": "Every check: exit 0 held, exit 1 + VIOLATION line, exit 3 + UNDECIDED line when the engine cannot decide (unsupported construct, vacuity guard). Known findings: /verif/known_findings.json.",
}
for p in props:
    if p in CLAIMED:
        c = CLAIMED[p]
        m["checks"].append({
          "property_id": p,
          "quick_cmd": f"bin/govc check {p} --tier quick",
          "thorough_cmd": f"bin/govc check {p} --tier thorough",
          "evidence_file": f"/verif/evidence/{p}.json",
          "replay_cmd_template": "bin/govc replay {path}",
          "engine": "govc",
          "level_claimed": {"category": c.get("category","proof"), "text": c["text"], "design_ref": "DESIGN.md section "+c["ref"]},
          "level_note": c["note"],
          "technique": c["technique"],
        })
    else:
        m["not_applicable"].append({"property_id": p, "reason": NA_REASON})
json.dump(m, open('/verif/MANIFEST.json','w'), indent=1)
print("claimed:", sorted(CLAIMED))
