#!/usr/bin/env python3
# Regenerates /verif/MANIFEST.json from the table below (kept in one place so it stays valid).
import json, subprocess
props = [json.loads(l)['id'] for l in open('/verif/properties.jsonl')]

CLAIMED = {
 "C02": dict(
   text="Proof, for all 2^64 operands x 2^64 arguments x argument index 0-5 x both byte orders x all eight operations: the inner-loop invariant of SyscallWithConditions.Assemble (live <=> all conditions so far hold as unsigned 64-bit relations) is preserved by the code emitted for each operation; LdHi/LdLo proved to address the correct word of seccomp_data for either layout. Bit-vector obligations are decided exactly (no sampling, no bound).",
   note="Trusted: spec library (seccomp_data layout, cBPF step semantics, rel64), govc itself, solvers; nativeEndian is one of the two byte orders (init() not verified); int 64-bit. Relies on Program.Assemble's contract (C06) only for the link from label-level to resolved program.",
   technique="contract-based deductive verification: WP-style VC generation over the Go AST, loop invariants, ghost cBPF interpreter state, SMT (bit-vectors)",
   ref="7 C02"),
}
NA_REASON = "check not built yet (work in progress; DESIGN.md section 7 describes the planned contracts)"

def head(repo):
    return subprocess.run(["git","-C",repo,"log","--format=%H","--grep=^verif:","-n","20"],capture_output=True,text=True).stdout.split()

m = {
 "version": 1,
 "setup_cmd": "./setup.sh",
 "hooks": {
   "guard": "verif",
   "enable": "build tag: the checks load /repo with -tags=verif; the hook files are comment-only contract files (//go:build verif), nothing executable is added",
   "baseline_off_cmd": "cd /repo && go test -vet=off -count=1 ./...",
   "source_commits": head("/repo"),
   "add_only": True,
 },
 "engines": [{"name":"govc","path":"/verif/govc","serves_properties":sorted(CLAIMED),
   "kind_free_text":"contract-based deductive verifier for Go written for this task: reads //@ contracts (requires/ensures/modifies/loop invariants/ghost state/lemmas) from verif-tagged comment files in /repo, generates verification conditions by symbolic execution of the typed AST of the real functions (calls replaced by callee contracts, loops cut at invariants, no-panic/overflow/frame obligations generated automatically), discharges them with z3 5.1 / cvc5 / z3 4.8"}],
 "checks": [],
 "not_applicable": [],
 "notes": "Every check: exit 0 held, exit 1 + VIOLATION line, exit 3 + UNDECIDED line when the engine cannot decide (unsupported construct, vacuity guard). Known findings: /verif/known_findings.json.",
}
for p in props:
    if p in CLAIMED:
        c = CLAIMED[p]
        m["checks"].append({
          "property_id": p,
          "quick_cmd": f"bin/govc check {p} --tier quick",
          "thorough_cmd": f"bin/govc check {p} --tier thorough",
          "evidence_file": f"/verif/evidence/{p}.json",
          "replay_cmd_template": "bin/govc replay {path}",
          "engine": "govc",
          "level_claimed": {"category": c.get("category","proof"), "text": c["text"], "design_ref": "DESIGN.md section "+c["ref"]},
          "level_note": c["note"],
          "technique": c["technique"],
        })
    else:
        m["not_applicable"].append({"property_id": p, "reason": NA_REASON})
json.dump(m, open('/verif/MANIFEST.json','w'), indent=1)
print("claimed:", sorted(CLAIMED))
