#!/bin/sh
# usage: tools/confirmseed.sh <ID> [srcroot=/tmp/seed] [archive=<ID>]
# confirms a seeded change in a fresh scratch worktree of /repo (never in /repo itself) and archives it under
# /verif/seeded/<archive>: the suite must pass with the change, the demonstration must fail with it and pass without.
export GOFLAGS=-mod=mod GOPROXY=off GOSUMDB=off GOTOOLCHAIN=local
id=$1; root=${2:-/tmp/seed}; arch=${3:-$id}
src=$root/$id
w=/tmp/confirm-$arch
rm -rf $w; git -C /repo worktree add -q --detach $w HEAD || exit 2
cd $w
demo=$(cd $src && find . -name "*seed_demo*_test.go" -o -name "seed_demo.sh" | head -1)
echo "demo: $demo"
git apply $src.patch || { echo "PATCH DOES NOT APPLY"; cd /; git -C /repo worktree remove --force $w; exit 2; }
go build ./... && echo "build: ok" || echo "build: FAILED"
go test -vet=off -count=1 ./... 2>&1 | grep -v "no test files" | tail -3
echo "--- demo with change (must fail)"
cp $src/$demo $w/$demo
(cd $w/$(dirname $demo) && go test -vet=off -count=1 -run '^TestSeedDemo$' . 2>&1 | tail -4)
echo "--- demo without change (must pass)"
git apply -R $src.patch
(cd $w/$(dirname $demo) && go test -vet=off -count=1 -run '^TestSeedDemo$' . 2>&1 | tail -2)
mkdir -p /verif/seeded/$arch
cp $src.patch /verif/seeded/$arch/patch.diff
cp $src/$demo /verif/seeded/$arch/$(basename $demo).txt
cd /; git -C /repo worktree remove --force $w
