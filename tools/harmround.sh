#!/bin/sh
# usage: tools/harmround.sh <dir> <prefix> <PROP>...   runs every <dir>/<prefix>*.patch (behaviour-preserving edits written by
# sub-agents) through the checks of the given properties; prints FALSE-ALARM for a VIOLATION line, else the outcome.
dir=$1; pre=$2; shift; shift
cd /verif
for p in $dir/$pre*.patch; do
  out=$(tools/tryseed.sh $p "$@" 2>&1)
  if echo "$out" | grep -q "^VIOLATION"; then echo "FALSE-ALARM $(basename $p): $(echo "$out" | grep '^VIOLATION' | head -3 | cut -c1-200)"; fi
  echo "$(basename $p): $(echo "$out" | grep 'tier=' | sed 's/ tier=quick obligations=/ /; s/ known=0//; s/ wall=.*//' | tr '\n' ';')"
done
