#!/usr/bin/env python3
"""usage: tools/mkround.py <round> <ID>...   prepares /tmp/sa<round>/<ID>/{wt,PROPERTY.json,PROMPT.md} for a round of
independent sub-agents (DESIGN.md 12.4): a scratch worktree of /repo WITHOUT the contract files, the property record,
and a prompt that lists the ideas already used for the property (taken from the summaries in /verif/seeded/<ID>*/meta.json).
Nothing from /verif is given to the sub-agent. Afterwards: tools/confirmseed5.sh <ID> <ID>-<round> /tmp/sa<round>,
tools/tryseed.sh, and `git -C /repo worktree remove --force` for every worktree."""
import json, sys, os, glob, subprocess
rnd = sys.argv[1]
root = f"/tmp/sa{rnd}"
TMPL = '''You are helping to test a verification effort by playing the role of a developer who introduces a subtle, realistic regression into a Go library. Work ONLY inside the scratch git worktree @ROOT@/@ID@/wt (a copy of the repository elastic/go-seccomp-bpf: a pure-Go library that compiles a seccomp syscall policy into a classic BPF program and installs it). Do not read or write anything under /verif, /repo, /root/.claude or other @ROOT@/<other-id> directories, and do not look at the git history (git log, git stash) of the worktree - only the current source files.

The semantic property your change must break is described in @ROOT@/@ID@/PROPERTY.json (read it first: statement, quantifier, anchors).

Task: produce ONE small, plausible source change to the library (something a maintainer could write in good faith: a refactoring, an "optimisation", a "simplification", a fix for something else, a new convenience) that
  1. still compiles (`go build ./...`, and for C19 also for the other targets it touches) and passes the WHOLE existing test suite unchanged (`go test -vet=off -count=1 ./...`),
  2. breaks the property, but only under specific circumstances - an unusual input, a boundary value, a particular size, a multi-step sequence, two cooperating code sites that each look fine alone, a particular schedule or failure point, a particular build target - NOT something ordinary use or the existing tests would expose at once,
  3. is different in kind from these ideas, which were already used (many rounds have been played; be inventive, look at code paths and statement clauses the list does not touch):
@AVOID@

Every shell command needs this environment (there is no network): export GOFLAGS=-mod=mod GOPROXY=off GOSUMDB=off GOTOOLCHAIN=local

Deliverables (all three required):
  a. @ROOT@/@ID@/change.patch - the change as a unified diff produced with `git -C @ROOT@/@ID@/wt diff` (use `git add -N` first for new files; it must NOT contain the demonstration file and must not touch *_test.go files);
  b. @ROOT@/@ID@/demo/<relative path>/seed_demo_test.go - a Go test file (in-package tests are fine) containing exactly one test function `TestSeedDemo` that FAILS with your change applied and PASSES on the unchanged tree; <relative path> is the package directory relative to the repository root (put the file directly in @ROOT@/@ID@/demo/ for the root package, or e.g. @ROOT@/@ID@/demo/cmd/sandbox/ for that package). The demonstration must not need root privileges or network; if it must install a real seccomp filter or needs a fresh process do it in a child process of the test binary; if the property is about another build target, the demo may invoke `go build`/`go vet`/`go list` for that target or inspect source with go/parser, go/types, go/build;
  c. @ROOT@/@ID@/NOTES.md - 10-20 lines: what the change is, why it looks reasonable, exactly what is needed for it to manifest, which sentence of the property it breaks, and the commands you ran with their outcome (suite with change: pass; demo with change: fail; demo without change: pass).

Verify all of that yourself before finishing (apply/revert with `git apply -R` / `git apply`; copy the demo into the worktree only temporarily and remove it again; leave the worktree with your change applied and no demo file in it). Keep the change small (typically < 40 changed lines). When done, reply with a 5-line summary.
'''
props = {json.loads(l)["id"]: json.loads(l) for l in open("/verif/properties.jsonl")}
for pid in sys.argv[2:]:
    d = f"{root}/{pid}"
    subprocess.run(["rm", "-rf", d]); os.makedirs(d)
    subprocess.check_call(["git", "-C", "/repo", "worktree", "add", "-q", "--detach", d + "/wt", "HEAD"])
    files = [f for f in subprocess.check_output(["git", "-C", d + "/wt", "ls-files"], text=True).split() if f.endswith("verif_contracts.go")]
    subprocess.check_call(["git", "-C", d + "/wt", "rm", "-q"] + files)
    subprocess.check_call(["git", "-C", d + "/wt", "-c", "user.name=x", "-c", "user.email=x@x", "commit", "-qm", "scratch base"])
    open(d + "/PROPERTY.json", "w").write(json.dumps(props[pid], indent=1))
    used = []
    for m in sorted(glob.glob(f"/verif/seeded/{pid}*/meta.json")):
        try:
            s = json.load(open(m)).get("summary", "")
        except Exception:
            continue
        if s:
            used.append("   - " + s[:260])
    open(d + "/PROMPT.md", "w").write(TMPL.replace("@ROOT@", root).replace("@ID@", pid).replace("@AVOID@", "\n".join(used) or "   (none yet)"))
    print(pid, len(used), "ideas listed")
