#!/bin/sh
# usage: tools/harmless.sh [name-prefix]   runs the negative controls of /verif/harmless (semantics-preserving edits of
# /repo, applied one at a time and reverted): none may make a check print a VIOLATION line. Exit 1 on a false alarm.
cd /verif
bad=0
grep -v '^#' harmless/INDEX.txt | while read f props; do
  [ -z "$f" ] && continue
  case "$f" in "$1"*) ;; *) continue;; esac
  out=$(tools/tryseed.sh /verif/harmless/$f $props 2>&1)
  if echo "$out" | grep -q "^VIOLATION"; then echo "FALSE-ALARM $f: $(echo "$out" | grep '^VIOLATION' | head -2)"; echo x >> /tmp/harmless.bad; else echo "quiet       $f ($props)"; fi
done
if [ -f /tmp/harmless.bad ]; then rm -f /tmp/harmless.bad; exit 1; fi
