#!/bin/sh
# usage: tools/confirmseed5.sh <ID> <archive-name> [root=/tmp/sa5]
# layout written by the round-5 sub-agents: <root>/<ID>/change.patch, <root>/<ID>/demo/<pkgdir>/seed_demo_test.go, NOTES.md
# confirms in a fresh scratch worktree of /repo (never /repo itself): suite passes with the change, demo fails with it
# and passes without; then archives under /verif/seeded/<archive-name>.
export GOFLAGS=-mod=mod GOPROXY=off GOSUMDB=off GOTOOLCHAIN=local
id=$1; arch=$2; root=${3:-/tmp/sa8}
src=$root/$id
w=/tmp/confirm-$arch
rm -rf $w; git -C /repo worktree add -q --detach $w HEAD || exit 2
cd $w
demo=$(cd $src/demo && find . -name "seed_demo_test.go" | head -1)
echo "demo: $demo"
git apply $src/change.patch || { echo "PATCH DOES NOT APPLY"; cd /; git -C /repo worktree remove --force $w; exit 2; }
go build ./... && echo "build: ok" || echo "build: FAILED"
echo "--- suite with change (must pass)"
go test -vet=off -count=1 ./... 2>&1 | grep -v "no test files" | tail -4
echo "--- demo with change (must fail)"
cp $src/demo/$demo $w/$demo
(cd $w/$(dirname $demo) && go test -vet=off -count=1 -run '^TestSeedDemo$' . 2>&1 | tail -4)
echo "--- demo without change (must pass)"
git apply -R $src/change.patch
(cd $w/$(dirname $demo) && go test -vet=off -count=1 -run '^TestSeedDemo$' . 2>&1 | tail -2)
mkdir -p /verif/seeded/$arch
cp $src/change.patch /verif/seeded/$arch/patch.diff
cp $src/demo/$demo /verif/seeded/$arch/seed_demo_test.go.txt
echo "$demo" > /verif/seeded/$arch/demo_path.txt
cp $src/NOTES.md /verif/seeded/$arch/NOTES.md 2>/dev/null
cd /; git -C /repo worktree remove --force $w
