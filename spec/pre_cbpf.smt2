; ---------------------------------------------------------------------------
; Trusted spec library, part 1 (sorts used by ghost fields): DESIGN.md 3.1/3.2
; The ghost event `ev` and layout flag `le` are free constants: every obligation
; that mentions them is proved for all events and both byte orders.
; ---------------------------------------------------------------------------
(declare-datatypes ((Event 0)) (((mkEvent (ev_nr (_ BitVec 32)) (ev_arch (_ BitVec 32)) (ev_args (Array (_ BitVec 32) (_ BitVec 64)))))))
(declare-const ev Event)
(declare-const le Bool)
; accumulator with which a separately assembled block is entered (arbitrary)
(declare-const A0 (_ BitVec 32))
; S-fwd: state of the single-pass forward interpreter of a label-level program
(declare-datatypes ((GState 0)) (((mkG (g_live Bool) (g_A (_ BitVec 32)) (g_done Bool) (g_rval (_ BitVec 32))
                                       (g_taken (Array Int Bool)) (g_tA (Array Int (_ BitVec 32)))))))
; outcome of running a closed block: return a value, or fall off its end with accumulator A
(declare-datatypes ((Outcome 0)) (((Ret (ret_val (_ BitVec 32))) (Fall (fall_A (_ BitVec 32))) (Stuck))))
; accumulator at the start of the whole filter (arbitrary; the kernel starts with 0)
(declare-const Astart (_ BitVec 32))
