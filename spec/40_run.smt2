; ---------------------------------------------------------------------------
; Trusted spec library, part 5: S-std, the ordinary cBPF interpreter on resolved
; programs (kernel semantics of ld [k], jeq/jgt/jge/jset and negations, ja, ret k),
; on the ghost event `ev`. Outcome: Ret v, Fall A (control reaches exactly
; len(prog) with accumulator A), Stuck (jump outside the program / illegal insn).
; ---------------------------------------------------------------------------
(define-fun insnAt ((p Slice<I.bpf.Instruction>) (pc Int)) I.bpf.Instruction (select (Slice<I.bpf.Instruction>.arr p) pc))
(define-fun plen ((p Slice<I.bpf.Instruction>)) Int (Slice<I.bpf.Instruction>.len p))
(define-fun-rec run ((p Slice<I.bpf.Instruction>) (pc Int) (A (_ BitVec 32))) Outcome
  (ite (or (< pc 0) (> pc (plen p))) Stuck
  (ite (= pc (plen p)) (Fall A)
  (let ((i (insnAt p pc)))
  (ite ((_ is I.bpf.Instruction.box.bpf.RetConstant) i) (Ret (bpf.RetConstant.Val (I.bpf.Instruction.unbox.bpf.RetConstant i)))
  (ite ((_ is I.bpf.Instruction.box.bpf.LoadAbsolute) i)
       (run p (+ pc 1) (word ev (bpf.LoadAbsolute.Off (I.bpf.Instruction.unbox.bpf.LoadAbsolute i))))
  (ite ((_ is I.bpf.Instruction.box.bpf.JumpIf) i)
       (let ((j (I.bpf.Instruction.unbox.bpf.JumpIf i)))
         (run p (+ pc 1 (ite (jtest (bpf.JumpIf.Cond j) A (bpf.JumpIf.Val j)) (bpf.JumpIf.SkipTrue j) (bpf.JumpIf.SkipFalse j))) A))
  (ite ((_ is I.bpf.Instruction.box.bpf.Jump) i)
       (run p (+ pc 1 (w2i32 (bpf.Jump.Skip (I.bpf.Instruction.unbox.bpf.Jump i)))) A)
       Stuck))))))))
; structural predicates (kernel verifier clauses and composition)
(define-fun insnOK ((p Slice<I.bpf.Instruction>) (pc Int)) Bool
  (let ((i (insnAt p pc)))
    (or ((_ is I.bpf.Instruction.box.bpf.RetConstant) i)
        (validLoad i)
        (and ((_ is I.bpf.Instruction.box.bpf.JumpIf) i)
             (let ((j (I.bpf.Instruction.unbox.bpf.JumpIf i)))
               (and (<= 0 (bpf.JumpIf.Cond j)) (<= (bpf.JumpIf.Cond j) 7)
                    (<= 0 (bpf.JumpIf.SkipTrue j)) (<= (bpf.JumpIf.SkipTrue j) 255)
                    (<= 0 (bpf.JumpIf.SkipFalse j)) (<= (bpf.JumpIf.SkipFalse j) 255)
                    (<= (+ pc 1 (bpf.JumpIf.SkipTrue j)) (plen p)) (<= (+ pc 1 (bpf.JumpIf.SkipFalse j)) (plen p)))))
        (and ((_ is I.bpf.Instruction.box.bpf.Jump) i)
             (<= (+ pc 1 (w2i32 (bpf.Jump.Skip (I.bpf.Instruction.unbox.bpf.Jump i)))) (plen p))))))
; closed: only permitted instruction kinds, every jump lands inside [0, len] (len itself = falls off the end)
(define-fun closed ((p Slice<I.bpf.Instruction>)) Bool
  (forall ((pc Int)) (! (=> (and (<= 0 pc) (< pc (plen p))) (insnOK p pc)) :pattern ((insnAt p pc)))))
; every return value of the block is one of a, b
(define-fun retsIn2 ((p Slice<I.bpf.Instruction>) (a (_ BitVec 32)) (b (_ BitVec 32))) Bool
  (forall ((pc Int)) (! (=> (and (<= 0 pc) (< pc (plen p)) ((_ is I.bpf.Instruction.box.bpf.RetConstant) (insnAt p pc)))
                          (or (isRetOf (insnAt p pc) a) (isRetOf (insnAt p pc) b))) :pattern ((insnAt p pc)))))
; B occurs in prog at offset s
(define-fun subBlock ((prog Slice<I.bpf.Instruction>) (s Int) (B Slice<I.bpf.Instruction>)) Bool
  (and (<= 0 s) (<= (+ s (plen B)) (plen prog))
       (forall ((j Int)) (! (=> (and (<= 0 j) (< j (plen B))) (= (insnAt prog (+ s j)) (insnAt B j))) :pattern ((insnAt B j))))))
; composition of outcomes
(define-fun thenRun ((o Outcome) (prog Slice<I.bpf.Instruction>) (pc Int)) Outcome
  (ite ((_ is Fall) o) (run prog pc (fall_A o)) o))
; builder-level instruction invariant (C05): every instruction emitted so far is an aligned in-record load, a conditional
; jump with one of the eight tests, or a return whose value is in the ghost set R of values passed to Ret
(define-fun builderInsnOK ((i I.bpf.Instruction) (R (Array (_ BitVec 32) Bool))) Bool
  (or (validLoad i)
      (and ((_ is I.bpf.Instruction.box.bpf.JumpIf) i)
           (<= 0 (bpf.JumpIf.Cond (I.bpf.Instruction.unbox.bpf.JumpIf i))) (<= (bpf.JumpIf.Cond (I.bpf.Instruction.unbox.bpf.JumpIf i)) 7))
      (and ((_ is I.bpf.Instruction.box.bpf.RetConstant) i) (select R (bpf.RetConstant.Val (I.bpf.Instruction.unbox.bpf.RetConstant i))))))
(define-fun progOK ((p Slice<I.bpf.Instruction>) (R (Array (_ BitVec 32) Bool))) Bool
  (forall ((pc Int)) (! (=> (and (<= 0 pc) (< pc (plen p))) (builderInsnOK (insnAt p pc) R)) :pattern ((insnAt p pc)))))
(define-fun retsInSet ((p Slice<I.bpf.Instruction>) (R (Array (_ BitVec 32) Bool))) Bool
  (forall ((pc Int)) (! (=> (and (<= 0 pc) (< pc (plen p)) ((_ is I.bpf.Instruction.box.bpf.RetConstant) (insnAt p pc)))
                          (select R (bpf.RetConstant.Val (I.bpf.Instruction.unbox.bpf.RetConstant (insnAt p pc))))) :pattern ((insnAt p pc)))))
(define-fun emptyRets () (Array (_ BitVec 32) Bool) ((as const (Array (_ BitVec 32) Bool)) false))
(define-fun addRet ((R (Array (_ BitVec 32) Bool)) (v (_ BitVec 32))) (Array (_ BitVec 32) Bool) (store R v true))
