; membership in a list of strings as a function symbol (so that quantified facts about it have a trigger)
(declare-fun inListS (Slice<String> String) Bool)
(assert (forall ((l Slice<String>) (s String)) (! (= (inListS l s) (exists ((i Int)) (and (<= 0 i) (< i (Slice<String>.len l)) (= (select (Slice<String>.arr l) i) s)))) :pattern ((inListS l s)))))
(assert (forall ((l Slice<String>) (i Int)) (! (=> (and (<= 0 i) (< i (Slice<String>.len l))) (inListS l (select (Slice<String>.arr l) i))) :pattern ((select (Slice<String>.arr l) i)))))
