; ---------------------------------------------------------------------------
; Trusted spec library, part 5c: S-lab, the label-level program run directly on
; the builder's data structure (instructions, recorded jumps, label positions):
; a conditional jump continues at the first position of the chosen label behind
; the jump. This is the "label-level program" of property C06.
; ---------------------------------------------------------------------------
; index of the recorded jump that sits at instruction x, searching from k on (len if none)
(define-fun-rec jidx ((J Slice<seccomp.JumpIf>) (x Int) (k Int)) Int
  (ite (or (< k 0) (>= k (Slice<seccomp.JumpIf>.len J))) (Slice<seccomp.JumpIf>.len J)
  (ite (= (seccomp.JumpIf.index (select (Slice<seccomp.JumpIf>.arr J) k)) x) k (jidx J x (+ k 1)))))
; first position of label l behind instruction x, or -1
(define-fun destOf ((L Map<Int~Slice<Int>>) (l Int) (x Int)) Int
  (let ((s (labelPos L l)))
    (let ((m (firstIdxAbove s x 0)))
      (ite (< m (Slice<Int>.len s)) (select (Slice<Int>.arr s) m) (- 1)))))
(define-fun-rec runL3 ((I Slice<I.bpf.Instruction>) (J Slice<seccomp.JumpIf>) (L Map<Int~Slice<Int>>) (x Int) (A (_ BitVec 32))) Outcome
  (let ((unused 0))
  (ite (or (< x 0) (> x (plen I))) Stuck
  (ite (= x (plen I)) (Fall A)
  (let ((i (insnAt I x)))
  (ite ((_ is I.bpf.Instruction.box.bpf.RetConstant) i) (Ret (bpf.RetConstant.Val (I.bpf.Instruction.unbox.bpf.RetConstant i)))
  (ite ((_ is I.bpf.Instruction.box.bpf.LoadAbsolute) i)
       (runL3 I J L (+ x 1) (word ev (bpf.LoadAbsolute.Off (I.bpf.Instruction.unbox.bpf.LoadAbsolute i))))
  (ite ((_ is I.bpf.Instruction.box.bpf.JumpIf) i)
       (let ((k (jidx J x 0)) (j (I.bpf.Instruction.unbox.bpf.JumpIf i)))
         (ite (>= k (Slice<seccomp.JumpIf>.len J)) Stuck
           (let ((rec (select (Slice<seccomp.JumpIf>.arr J) k)))
             (let ((d (destOf L
                              (ite (jtest (bpf.JumpIf.Cond j) A (bpf.JumpIf.Val j)) (seccomp.JumpIf.trueLabel rec) (seccomp.JumpIf.falseLabel rec)) x)))
               (ite (<= d x) Stuck (runL3 I J L d A))))))
       Stuck))))))))
