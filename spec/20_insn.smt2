; ---------------------------------------------------------------------------
; Trusted spec library, part 4: instruction-level predicates over the generated
; datatype of bpf.Instruction (kernel filter verifier clauses, DESIGN.md 3.5).
; ---------------------------------------------------------------------------
; ld [k]: 32-bit absolute load, aligned, inside the 64-byte struct seccomp_data (seccomp_check_filter)
(define-fun validLoad ((i I.bpf.Instruction)) Bool
  (and ((_ is I.bpf.Instruction.box.bpf.LoadAbsolute) i)
       (= (bpf.LoadAbsolute.Size (I.bpf.Instruction.unbox.bpf.LoadAbsolute i)) 4)
       (= (bvand (bpf.LoadAbsolute.Off (I.bpf.Instruction.unbox.bpf.LoadAbsolute i)) #x00000003) #x00000000)
       (bvult (bpf.LoadAbsolute.Off (I.bpf.Instruction.unbox.bpf.LoadAbsolute i)) #x00000040)))
(define-fun isRetOf ((i I.bpf.Instruction) (v (_ BitVec 32))) Bool
  (and ((_ is I.bpf.Instruction.box.bpf.RetConstant) i)
       (= (bpf.RetConstant.Val (I.bpf.Instruction.unbox.bpf.RetConstant i)) v)))
(define-fun isRet ((i I.bpf.Instruction)) Bool ((_ is I.bpf.Instruction.box.bpf.RetConstant) i))
(define-fun isJumpIf ((i I.bpf.Instruction)) Bool ((_ is I.bpf.Instruction.box.bpf.JumpIf) i))
