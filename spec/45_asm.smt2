; ---------------------------------------------------------------------------
; Trusted spec library, part 5b: label resolution (layer A, property C06).
; pos maps an index of the label-level program to the index of the same
; instruction in the program that is being resolved (ghost state of Program.Assemble).
; ---------------------------------------------------------------------------
; identity map and the map after inserting one instruction at index k: every position >= k moves by one
(declare-const idArr (Array Int Int))
(assert (forall ((y Int)) (! (= (select idArr y) y) :pattern ((select idArr y)))))
(declare-fun shiftArr ((Array Int Int) Int) (Array Int Int))
(assert (forall ((a (Array Int Int)) (k Int) (y Int))
  (! (= (select (shiftArr a k) y) (ite (>= (select a y) k) (+ (select a y) 1) (select a y))) :pattern ((select (shiftArr a k) y)))))
; index of the first element of s from m on that is greater than x; len(s) if there is none
(define-fun-rec firstIdxAbove ((s Slice<Int>) (x Int) (m Int)) Int
  (ite (or (< m 0) (>= m (Slice<Int>.len s))) (Slice<Int>.len s)
  (ite (> (select (Slice<Int>.arr s) m) x) m (firstIdxAbove s x (+ m 1)))))
; m is the index of the first element of s greater than x
(define-fun isFirstAbove ((s Slice<Int>) (x Int) (m Int)) Bool
  (and (<= 0 m) (< m (Slice<Int>.len s)) (> (select (Slice<Int>.arr s) m) x)
       (forall ((j Int)) (! (=> (and (<= 0 j) (< j m)) (<= (select (Slice<Int>.arr s) j) x)) :pattern ((select (Slice<Int>.arr s) j))))))
; strictly increasing position map
(define-fun posMono ((pos (Array Int Int))) Bool
  (forall ((a Int) (b Int)) (! (=> (< a b) (< (select pos a) (select pos b))) :pattern ((select pos a) (select pos b)))))
; a branch of a resolved conditional jump that continues at c behaves like a jump to t:
; it lands there, or on a copy of the return instruction at t, or on an unconditional jump to t
(define-fun branchOK ((p Slice<I.bpf.Instruction>) (c Int) (t Int)) Bool
  (or (= c t)
      (and (<= 0 c) (< c (plen p)) (<= 0 t) (< t (plen p)) (isRet (insnAt p c)) (= (insnAt p c) (insnAt p t)))
      (and (<= 0 c) (< c (plen p)) ((_ is I.bpf.Instruction.box.bpf.Jump) (insnAt p c))
           (= (+ c 1 (w2i32 (bpf.Jump.Skip (I.bpf.Instruction.unbox.bpf.Jump (insnAt p c))))) t))))
; every conditional jump of the instruction list I is recorded in J (kept as a named predicate: where it is not needed
; it is made opaque, because its instances feed every quantifier over J)
(define-fun jumpsComplete ((I Slice<I.bpf.Instruction>) (J Slice<seccomp.JumpIf>)) Bool
  (forall ((x Int)) (! (=> (and (<= 0 x) (< x (plen I)) (isJumpIf (insnAt I x)))
                           (exists ((k Int)) (and (<= 0 k) (< k (Slice<seccomp.JumpIf>.len J)) (= (seccomp.JumpIf.index (select (Slice<seccomp.JumpIf>.arr J) k)) x))))
                       :pattern ((insnAt I x)))))
; positions of a label (Go map semantics: an absent key reads as the empty slice)
(define-fun labelPos ((L Map<Int~Slice<Int>>) (l Int)) Slice<Int>
  (ite (select (Map<Int~Slice<Int>>.has L) l) (select (Map<Int~Slice<Int>>.val L) l) (mk.Slice<Int> ((as const (Array Int Int)) 0) 0 true)))
; the representation invariant of a Program as one named predicate (the contract-level macro ri(p) is the same
; statement; lemma riLink proves the equivalence). Callers that only pass it along keep it opaque.
(define-fun riS ((P seccomp.Program)) Bool
  (let ((I (seccomp.Program.instructions P)) (J (seccomp.Program.jumps P)) (L (seccomp.Program.labels P)))
  (and
    (forall ((x Int)) (! (=> (and (<= 0 x) (< x (plen I)))
        (or (isRet (insnAt I x)) ((_ is I.bpf.Instruction.box.bpf.LoadAbsolute) (insnAt I x)) (isJumpIf (insnAt I x)))) :pattern ((insnAt I x))))
    (forall ((k Int)) (! (=> (and (<= 0 k) (< k (Slice<seccomp.JumpIf>.len J)))
        (and (<= 0 (seccomp.JumpIf.index (select (Slice<seccomp.JumpIf>.arr J) k)))
             (< (seccomp.JumpIf.index (select (Slice<seccomp.JumpIf>.arr J) k)) (plen I))
             (isJumpIf (insnAt I (seccomp.JumpIf.index (select (Slice<seccomp.JumpIf>.arr J) k)))))) :pattern ((select (Slice<seccomp.JumpIf>.arr J) k))))
    (forall ((x Int)) (! (=> (and (<= 0 x) (< x (plen I)) (isJumpIf (insnAt I x)))
        (and (= (bpf.JumpIf.SkipTrue (I.bpf.Instruction.unbox.bpf.JumpIf (insnAt I x))) 0)
             (= (bpf.JumpIf.SkipFalse (I.bpf.Instruction.unbox.bpf.JumpIf (insnAt I x))) 0))) :pattern ((insnAt I x))))
    (forall ((a Int) (b Int)) (! (=> (and (<= 0 a) (< a b) (< b (Slice<seccomp.JumpIf>.len J)))
        (< (seccomp.JumpIf.index (select (Slice<seccomp.JumpIf>.arr J) a)) (seccomp.JumpIf.index (select (Slice<seccomp.JumpIf>.arr J) b))))
        :pattern ((select (Slice<seccomp.JumpIf>.arr J) a) (select (Slice<seccomp.JumpIf>.arr J) b))))
    (jumpsComplete I J)
    (Map<Int~Slice<Int>>.nonnil L)
    (forall ((l Int)) (! (and (>= (Slice<Int>.len (labelPos L l)) 0)
        (forall ((m Int)) (! (=> (and (<= 0 m) (< m (Slice<Int>.len (labelPos L l))))
             (and (<= 0 (select (Slice<Int>.arr (labelPos L l)) m)) (<= (select (Slice<Int>.arr (labelPos L l)) m) (plen I))))
             :pattern ((select (Slice<Int>.arr (select (Map<Int~Slice<Int>>.val L) l)) m))))) :pattern ((select (Map<Int~Slice<Int>>.val L) l))))
    (forall ((l Int)) (! (=> (> l (seccomp.Program.nextLabel P)) (not (select (Map<Int~Slice<Int>>.has L) l))) :pattern ((select (Map<Int~Slice<Int>>.has L) l)))))))
