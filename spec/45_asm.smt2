; ---------------------------------------------------------------------------
; Trusted spec library, part 5b: label resolution (layer A, property C06).
; pos maps an index of the label-level program to the index of the same
; instruction in the program that is being resolved (ghost state of Program.Assemble).
; ---------------------------------------------------------------------------
; identity map and the map after inserting one instruction at index k: every position >= k moves by one
(declare-const idArr (Array Int Int))
(assert (forall ((y Int)) (! (= (select idArr y) y) :pattern ((select idArr y)))))
(declare-fun shiftArr ((Array Int Int) Int) (Array Int Int))
(assert (forall ((a (Array Int Int)) (k Int) (y Int))
  (! (= (select (shiftArr a k) y) (ite (>= (select a y) k) (+ (select a y) 1) (select a y))) :pattern ((select (shiftArr a k) y)))))
; index of the first element of s from m on that is greater than x; len(s) if there is none
(define-fun-rec firstIdxAbove ((s Slice<Int>) (x Int) (m Int)) Int
  (ite (or (< m 0) (>= m (Slice<Int>.len s))) (Slice<Int>.len s)
  (ite (> (select (Slice<Int>.arr s) m) x) m (firstIdxAbove s x (+ m 1)))))
; m is the index of the first element of s greater than x
(define-fun isFirstAbove ((s Slice<Int>) (x Int) (m Int)) Bool
  (and (<= 0 m) (< m (Slice<Int>.len s)) (> (select (Slice<Int>.arr s) m) x)
       (forall ((j Int)) (! (=> (and (<= 0 j) (< j m)) (<= (select (Slice<Int>.arr s) j) x)) :pattern ((select (Slice<Int>.arr s) j))))))
; strictly increasing position map
(define-fun posMono ((pos (Array Int Int))) Bool
  (forall ((a Int) (b Int)) (! (=> (< a b) (< (select pos a) (select pos b))) :pattern ((select pos a) (select pos b)))))
; a branch of a resolved conditional jump that continues at c behaves like a jump to t:
; it lands there, or on a copy of the return instruction at t, or on an unconditional jump to t
(define-fun branchOK ((p Slice<I.bpf.Instruction>) (c Int) (t Int)) Bool
  (or (= c t)
      (and (<= 0 c) (< c (plen p)) (<= 0 t) (< t (plen p)) (isRet (insnAt p c)) (= (insnAt p c) (insnAt p t)))
      (and (<= 0 c) (< c (plen p)) ((_ is I.bpf.Instruction.box.bpf.Jump) (insnAt p c))
           (= (+ c 1 (w2i32 (bpf.Jump.Skip (I.bpf.Instruction.unbox.bpf.Jump (insnAt p c))))) t))))
; every conditional jump of the instruction list I is recorded in J (kept as a named predicate: where it is not needed
; it is made opaque, because its instances feed every quantifier over J)
(define-fun jumpsComplete ((I Slice<I.bpf.Instruction>) (J Slice<seccomp.JumpIf>)) Bool
  (forall ((x Int)) (! (=> (and (<= 0 x) (< x (plen I)) (isJumpIf (insnAt I x)))
                           (exists ((k Int)) (and (<= 0 k) (< k (Slice<seccomp.JumpIf>.len J)) (= (seccomp.JumpIf.index (select (Slice<seccomp.JumpIf>.arr J) k)) x))))
                       :pattern ((insnAt I x)))))
