; ---------------------------------------------------------------------------
; Trusted spec library, part 2: seccomp_data layout, cBPF step functions (S-fwd)
; Written from linux/seccomp.h (struct seccomp_data), linux/filter.h and
; bpf_prog_run semantics for: ld [k], jeq/jgt/jge/jset (+ negations), ja, ret k.
; ---------------------------------------------------------------------------
(define-fun lo64 ((x (_ BitVec 64))) (_ BitVec 32) ((_ extract 31 0) x))
(define-fun hi64 ((x (_ BitVec 64))) (_ BitVec 32) ((_ extract 63 32) x))
(declare-fun word_other (Event (_ BitVec 32)) (_ BitVec 32))
; struct seccomp_data { int nr; __u32 arch; __u64 instruction_pointer; __u64 args[6]; } in native byte order:
; the 32-bit word at offset 16+8i is the low half of args[i] on little-endian layouts and the high half on big-endian ones.
(define-fun word ((e Event) (off (_ BitVec 32))) (_ BitVec 32)
  (ite (= off #x00000000) (ev_nr e)
  (ite (= off #x00000004) (ev_arch e)
  (ite (and (bvuge off #x00000010) (bvult off #x00000040) (= (bvand off #x00000003) #x00000000))
       (let ((a (select (ev_args e) (bvlshr (bvsub off #x00000010) #x00000003)))
             (second (= (bvand (bvsub off #x00000010) #x00000004) #x00000004)))
         (ite (= second le) (hi64 a) (lo64 a)))
       (word_other e off)))))
; x/net/bpf JumpTest numbering (checked against the vendored constants by a ground obligation)
(define-fun jtest ((cond Int) (A (_ BitVec 32)) (k (_ BitVec 32))) Bool
  (ite (= cond 0) (= A k)
  (ite (= cond 1) (not (= A k))
  (ite (= cond 2) (bvugt A k)
  (ite (= cond 3) (bvult A k)
  (ite (= cond 4) (bvuge A k)
  (ite (= cond 5) (bvule A k)
  (ite (= cond 6) (not (= (bvand A k) #x00000000))
       (= (bvand A k) #x00000000)))))))))
(define-fun Ginit ((A (_ BitVec 32))) GState
  (mkG true A false #x00000000 ((as const (Array Int Bool)) false) ((as const (Array Int (_ BitVec 32))) #x00000000)))
(define-fun stepLd ((G GState) (off (_ BitVec 32))) GState
  (mkG (g_live G) (ite (g_live G) (word ev off) (g_A G)) (g_done G) (g_rval G) (g_taken G) (g_tA G)))
(define-fun stepJif ((G GState) (cond Int) (k (_ BitVec 32)) (lt Int) (lf Int)) GState
  (let ((t (jtest cond (g_A G) k)))
    (mkG false (g_A G) (g_done G) (g_rval G)
         (store (store (g_taken G) lf (or (select (g_taken G) lf) (and (g_live G) (not t))))
                lt (ite (= lt lf) (or (select (g_taken G) lt) (g_live G)) (or (select (g_taken G) lt) (and (g_live G) t))))
         (store (store (g_tA G) lf (ite (and (g_live G) (not t)) (g_A G) (select (g_tA G) lf)))
                lt (ite (and (g_live G) (or t (= lt lf))) (g_A G) (select (g_tA G) lt))))))
(define-fun stepRet ((G GState) (v (_ BitVec 32))) GState
  (mkG false (g_A G) (or (g_done G) (g_live G)) (ite (g_live G) v (g_rval G)) (g_taken G) (g_tA G)))
(define-fun stepMark ((G GState) (l Int)) GState
  (mkG (or (g_live G) (select (g_taken G) l)) (ite (select (g_taken G) l) (select (g_tA G) l) (g_A G))
       (g_done G) (g_rval G) (g_taken G) (g_tA G)))
(define-fun outG ((G GState)) Outcome
  (ite (g_done G) (Ret (g_rval G)) (ite (g_live G) (Fall (g_A G)) Stuck)))
; labels above n have never been jumped to
(define-fun freshAbove ((G GState) (n Int)) Bool
  (forall ((l Int)) (! (=> (> l n) (not (select (g_taken G) l))) :pattern ((select (g_taken G) l)))))
; labels up to n, other than x, have the same taken flag and accumulator
(define-fun sameTakenExcept ((G GState) (H GState) (n Int) (x Int)) Bool
  (forall ((l Int)) (! (=> (and (<= l n) (not (= l x))) (= (select (g_taken G) l) (select (g_taken H) l)))
                      :pattern ((select (g_taken G) l)))))
