; ---------------------------------------------------------------------------
; Trusted spec library, part 7: the loader model, and the kernel's view of the program it is handed.
; ---------------------------------------------------------------------------
(define-fun allThreads () (Array Int Bool) ((as const (Array Int Bool)) true))
(define-fun noThreads () (Array Int Bool) ((as const (Array Int Bool)) false))

; ---- classic BPF as the kernel runs it on the array it is handed: struct sock_filter {code, jt, jf, k}
; (linux/filter.h; bpf_check_classic / ___bpf_prog_run for the opcodes seccomp permits that the compiler can emit).
; Opcode values from linux/bpf_common.h (compared with the vendored header by ground obligations):
;   BPF_LD|BPF_W|BPF_ABS = 0x20 = 32      BPF_JMP|BPF_JA = 0x05 = 5        BPF_RET|BPF_K = 0x06 = 6
;   BPF_JMP|BPF_JEQ|BPF_K = 0x15 = 21     BPF_JMP|BPF_JGT|BPF_K = 0x25 = 37
;   BPF_JMP|BPF_JGE|BPF_K = 0x35 = 53     BPF_JMP|BPF_JSET|BPF_K = 0x45 = 69
; Outcome as for S-std: Ret v, Fall A (control reaches exactly the end), Stuck (anything else).
(define-fun sfAt ((p Slice<syscall.SockFilter>) (pc Int)) syscall.SockFilter (select (Slice<syscall.SockFilter>.arr p) pc))
(define-fun sfLen ((p Slice<syscall.SockFilter>)) Int (Slice<syscall.SockFilter>.len p))
(define-fun sfTest ((code Int) (A (_ BitVec 32)) (k (_ BitVec 32))) Bool
  (ite (= code 21) (= A k)
  (ite (= code 37) (bvugt A k)
  (ite (= code 53) (bvuge A k)
       (not (= (bvand A k) #x00000000))))))
(define-fun-rec runSF ((p Slice<syscall.SockFilter>) (pc Int) (A (_ BitVec 32))) Outcome
  (ite (or (< pc 0) (> pc (sfLen p))) Stuck
  (ite (= pc (sfLen p)) (Fall A)
  (let ((code (syscall.SockFilter.Code (sfAt p pc))) (k (syscall.SockFilter.K (sfAt p pc))))
  (ite (= code 6) (Ret k)
  (ite (= code 32) (runSF p (+ pc 1) (word ev k))
  (ite (= code 5) (runSF p (+ pc 1 (w2i32 k)) A)
  (ite (or (= code 21) (= code 37) (= code 53) (= code 69))
       (runSF p (+ pc 1 (ite (sfTest code A k) (syscall.SockFilter.Jt (sfAt p pc)) (syscall.SockFilter.Jf (sfAt p pc)))) A)
       Stuck))))))))

; ---- the raw form x/net's encoder must produce (intermediate relation between an instruction and its raw form; what
; matters is the theorem sfRunInd: a program in this relation to its raw form runs, under the kernel semantics above,
; exactly like the instruction list under S-std) ----
; conditional jump opcode and branch order per JumpTest (the four negated tests use the opposite test, branches swapped)
(define-fun rawJumpOp ((cond Int)) Int
  (ite (or (= cond 0) (= cond 1)) 21 (ite (or (= cond 2) (= cond 5)) 37 (ite (or (= cond 3) (= cond 4)) 53 69))))
(define-fun rawFlip ((cond Int)) Bool (or (= cond 1) (= cond 3) (= cond 5) (= cond 7)))
(define-fun rawLoadOp ((size Int)) Int (ite (= size 4) 32 (ite (= size 2) 40 48)))
; the instruction can be encoded (x/net returns no error)
(define-fun encodable ((i I.bpf.Instruction)) Bool
  (or ((_ is I.bpf.Instruction.box.bpf.RetConstant) i) ((_ is I.bpf.Instruction.box.bpf.Jump) i)
      (and ((_ is I.bpf.Instruction.box.bpf.LoadAbsolute) i)
           (let ((s (bpf.LoadAbsolute.Size (I.bpf.Instruction.unbox.bpf.LoadAbsolute i)))) (or (= s 1) (= s 2) (= s 4))))
      (and ((_ is I.bpf.Instruction.box.bpf.JumpIf) i)
           (<= 0 (bpf.JumpIf.Cond (I.bpf.Instruction.unbox.bpf.JumpIf i))) (<= (bpf.JumpIf.Cond (I.bpf.Instruction.unbox.bpf.JumpIf i)) 7))))
(define-fun encodes ((i I.bpf.Instruction) (r bpf.RawInstruction)) Bool
  (ite ((_ is I.bpf.Instruction.box.bpf.RetConstant) i)
       (= r (mk.bpf.RawInstruction 6 0 0 (bpf.RetConstant.Val (I.bpf.Instruction.unbox.bpf.RetConstant i))))
  (ite ((_ is I.bpf.Instruction.box.bpf.Jump) i)
       (= r (mk.bpf.RawInstruction 5 0 0 (bpf.Jump.Skip (I.bpf.Instruction.unbox.bpf.Jump i))))
  (ite ((_ is I.bpf.Instruction.box.bpf.LoadAbsolute) i)
       (= r (mk.bpf.RawInstruction (rawLoadOp (bpf.LoadAbsolute.Size (I.bpf.Instruction.unbox.bpf.LoadAbsolute i))) 0 0
                                   (bpf.LoadAbsolute.Off (I.bpf.Instruction.unbox.bpf.LoadAbsolute i))))
  (ite ((_ is I.bpf.Instruction.box.bpf.JumpIf) i)
       (let ((j (I.bpf.Instruction.unbox.bpf.JumpIf i)))
         (= r (mk.bpf.RawInstruction (rawJumpOp (bpf.JumpIf.Cond j))
                 (ite (rawFlip (bpf.JumpIf.Cond j)) (bpf.JumpIf.SkipFalse j) (bpf.JumpIf.SkipTrue j))
                 (ite (rawFlip (bpf.JumpIf.Cond j)) (bpf.JumpIf.SkipTrue j) (bpf.JumpIf.SkipFalse j))
                 (bpf.JumpIf.Val j))))
       false)))))
; the instruction kinds (and operand ranges) for which S-std and the kernel semantics of the raw form agree: word loads,
; the eight jump tests with 8-bit skips, ja, ret
(define-fun stdInsn ((i I.bpf.Instruction)) Bool
  (or ((_ is I.bpf.Instruction.box.bpf.RetConstant) i) ((_ is I.bpf.Instruction.box.bpf.Jump) i)
      (and ((_ is I.bpf.Instruction.box.bpf.LoadAbsolute) i) (= (bpf.LoadAbsolute.Size (I.bpf.Instruction.unbox.bpf.LoadAbsolute i)) 4))
      (and ((_ is I.bpf.Instruction.box.bpf.JumpIf) i)
           (let ((j (I.bpf.Instruction.unbox.bpf.JumpIf i)))
             (and (<= 0 (bpf.JumpIf.Cond j)) (<= (bpf.JumpIf.Cond j) 7) (<= 0 (bpf.JumpIf.SkipTrue j)) (<= 0 (bpf.JumpIf.SkipFalse j)))))))
; sock_filter element = raw instruction, field by field
(define-fun sameFields ((s syscall.SockFilter) (r bpf.RawInstruction)) Bool
  (and (= (syscall.SockFilter.Code s) (bpf.RawInstruction.Op r)) (= (syscall.SockFilter.Jt s) (bpf.RawInstruction.Jt r))
       (= (syscall.SockFilter.Jf s) (bpf.RawInstruction.Jf r)) (= (syscall.SockFilter.K s) (bpf.RawInstruction.K r))))
; the array handed to the kernel is, element by element, the raw form of the instruction list
(define-fun handedOver ((insts Slice<I.bpf.Instruction>) (raw Slice<bpf.RawInstruction>) (sf Slice<syscall.SockFilter>)) Bool
  (and (= (sfLen sf) (plen insts)) (= (Slice<bpf.RawInstruction>.len raw) (plen insts))
       (forall ((i Int)) (! (=> (and (<= 0 i) (< i (plen insts)))
            (and (stdInsn (insnAt insts i)) (encodes (insnAt insts i) (select (Slice<bpf.RawInstruction>.arr raw) i))
                 (sameFields (sfAt sf i) (select (Slice<bpf.RawInstruction>.arr raw) i))))
            :pattern ((insnAt insts i)) :pattern ((sfAt sf i))))))
