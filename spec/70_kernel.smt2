; spec for the loader model
(declare-fun encodes (I.bpf.Instruction bpf.RawInstruction) Bool)
(define-fun allThreads () (Array Int Bool) ((as const (Array Int Bool)) true))
(define-fun noThreads () (Array Int Bool) ((as const (Array Int Bool)) false))
