; ---------------------------------------------------------------------------
; Trusted spec library, part 5e: when label resolution cannot fail (C07 d).
; fwdOK: every label a recorded jump refers to has no position yet or has one
; behind the jump. hopeOK: for every recorded jump, some branch still has no
; position or lands at least two instructions behind the jump (so the resolved
; jump is not "useless": both skips zero). pendIn: every label a recorded jump
; refers to has a position or belongs to the set S.
; ---------------------------------------------------------------------------
(define-fun jrec ((J Slice<seccomp.JumpIf>) (k Int)) seccomp.JumpIf (select (Slice<seccomp.JumpIf>.arr J) k))
(define-fun hasL ((L Map<Int~Slice<Int>>) (l Int)) Bool (select (Map<Int~Slice<Int>>.has L) l))
(define-fun fwdOK ((P seccomp.Program)) Bool
  (let ((J (seccomp.Program.jumps P)) (L (seccomp.Program.labels P)))
  (forall ((k Int)) (! (=> (and (<= 0 k) (< k (Slice<seccomp.JumpIf>.len J)))
      (and (or (not (hasL L (seccomp.JumpIf.trueLabel (jrec J k)))) (> (destOf L (seccomp.JumpIf.trueLabel (jrec J k)) (seccomp.JumpIf.index (jrec J k))) (seccomp.JumpIf.index (jrec J k))))
           (or (not (hasL L (seccomp.JumpIf.falseLabel (jrec J k)))) (> (destOf L (seccomp.JumpIf.falseLabel (jrec J k)) (seccomp.JumpIf.index (jrec J k))) (seccomp.JumpIf.index (jrec J k))))))
      :pattern ((select (Slice<seccomp.JumpIf>.arr J) k))))))
(define-fun hopeOK ((P seccomp.Program)) Bool
  (let ((J (seccomp.Program.jumps P)) (L (seccomp.Program.labels P)))
  (forall ((k Int)) (! (=> (and (<= 0 k) (< k (Slice<seccomp.JumpIf>.len J)))
      (or (not (hasL L (seccomp.JumpIf.trueLabel (jrec J k))))
          (not (hasL L (seccomp.JumpIf.falseLabel (jrec J k))))
          (>= (destOf L (seccomp.JumpIf.trueLabel (jrec J k)) (seccomp.JumpIf.index (jrec J k))) (+ (seccomp.JumpIf.index (jrec J k)) 2))
          (>= (destOf L (seccomp.JumpIf.falseLabel (jrec J k)) (seccomp.JumpIf.index (jrec J k))) (+ (seccomp.JumpIf.index (jrec J k)) 2))))
      :pattern ((select (Slice<seccomp.JumpIf>.arr J) k))))))
(define-fun pendIn ((P seccomp.Program) (S (Array Int Bool))) Bool
  (let ((J (seccomp.Program.jumps P)) (L (seccomp.Program.labels P)))
  (forall ((k Int)) (! (=> (and (<= 0 k) (< k (Slice<seccomp.JumpIf>.len J)))
      (and (or (hasL L (seccomp.JumpIf.trueLabel (jrec J k))) (select S (seccomp.JumpIf.trueLabel (jrec J k))))
           (or (hasL L (seccomp.JumpIf.falseLabel (jrec J k))) (select S (seccomp.JumpIf.falseLabel (jrec J k))))))
      :pattern ((select (Slice<seccomp.JumpIf>.arr J) k))))))
; the instruction at the end of the program is not a recorded jump / is the jump with these labels
(define-fun noJumpAtEnd ((P seccomp.Program)) Bool
  (let ((J (seccomp.Program.jumps P)))
  (forall ((k Int)) (! (=> (and (<= 0 k) (< k (Slice<seccomp.JumpIf>.len J)))
      (< (seccomp.JumpIf.index (jrec J k)) (- (plen (seccomp.Program.instructions P)) 1)))
      :pattern ((select (Slice<seccomp.JumpIf>.arr J) k))))))
(define-fun endJump ((P seccomp.Program) (lt Int) (lf Int)) Bool
  (let ((J (seccomp.Program.jumps P)))
  (forall ((k Int)) (! (=> (and (<= 0 k) (< k (Slice<seccomp.JumpIf>.len J))
                                (>= (seccomp.JumpIf.index (jrec J k)) (- (plen (seccomp.Program.instructions P)) 1)))
      (and (= (seccomp.JumpIf.trueLabel (jrec J k)) lt) (= (seccomp.JumpIf.falseLabel (jrec J k)) lf)))
      :pattern ((select (Slice<seccomp.JumpIf>.arr J) k))))))
(define-fun emptyLabels () (Array Int Bool) ((as const (Array Int Bool)) false))
; placing label l now keeps hope for the jump at the end of the program (if it refers to l, its other label is a
; different one that still has no position)
(define-fun hopeKeep ((P seccomp.Program) (l Int)) Bool
  (let ((J (seccomp.Program.jumps P)) (L (seccomp.Program.labels P)))
  (forall ((k Int)) (! (=> (and (<= 0 k) (< k (Slice<seccomp.JumpIf>.len J))
                                (>= (seccomp.JumpIf.index (jrec J k)) (- (plen (seccomp.Program.instructions P)) 1))
                                (or (= (seccomp.JumpIf.trueLabel (jrec J k)) l) (= (seccomp.JumpIf.falseLabel (jrec J k)) l)))
      (or (and (not (= (seccomp.JumpIf.trueLabel (jrec J k)) l)) (not (hasL L (seccomp.JumpIf.trueLabel (jrec J k)))))
          (and (not (= (seccomp.JumpIf.falseLabel (jrec J k)) l)) (not (hasL L (seccomp.JumpIf.falseLabel (jrec J k)))))))
      :pattern ((select (Slice<seccomp.JumpIf>.arr J) k))))))
; a set of labels as a lemma parameter type
(define-sort LabelSet () (Array Int Bool))
; every label the jump at the end of the program (if there is one) refers to is below m; stated over the parts
; (instructions, jumps) so that it is visibly independent of label placement and of the label counter
(define-fun endBelow ((I Slice<I.bpf.Instruction>) (J Slice<seccomp.JumpIf>) (m Int)) Bool
  (forall ((k Int)) (! (=> (and (<= 0 k) (< k (Slice<seccomp.JumpIf>.len J))
                                (>= (seccomp.JumpIf.index (jrec J k)) (- (plen I) 1)))
      (and (< (seccomp.JumpIf.trueLabel (jrec J k)) m) (< (seccomp.JumpIf.falseLabel (jrec J k)) m)))
      :pattern ((select (Slice<seccomp.JumpIf>.arr J) k)))))
