; ---------------------------------------------------------------------------
; Trusted spec library, part 5d: S-lab on a program that is still being built.
; Like runL, but a jump to a label that has no position behind the jump yet is
; pending (PPend). relG relates the outcome to the single-pass interpreter
; state G that the builder primitives maintain (S-fwd).
; ---------------------------------------------------------------------------
(declare-datatypes ((OutP 0)) (((PRet (pret_val (_ BitVec 32))) (PFall (pfall_A (_ BitVec 32))) (PPend (ppend_l Int) (ppend_A (_ BitVec 32))) (PStuck))))
(define-fun-rec runP3 ((I Slice<I.bpf.Instruction>) (J Slice<seccomp.JumpIf>) (L Map<Int~Slice<Int>>) (x Int) (A (_ BitVec 32))) OutP
  (let ((unused 0))
  (ite (or (< x 0) (> x (plen I))) PStuck
  (ite (= x (plen I)) (PFall A)
  (let ((i (insnAt I x)))
  (ite ((_ is I.bpf.Instruction.box.bpf.RetConstant) i) (PRet (bpf.RetConstant.Val (I.bpf.Instruction.unbox.bpf.RetConstant i)))
  (ite ((_ is I.bpf.Instruction.box.bpf.LoadAbsolute) i)
       (runP3 I J L (+ x 1) (word ev (bpf.LoadAbsolute.Off (I.bpf.Instruction.unbox.bpf.LoadAbsolute i))))
  (ite ((_ is I.bpf.Instruction.box.bpf.JumpIf) i)
       (let ((k (jidx J x 0)) (j (I.bpf.Instruction.unbox.bpf.JumpIf i)))
         (ite (>= k (Slice<seccomp.JumpIf>.len J)) PStuck
           (let ((rec (select (Slice<seccomp.JumpIf>.arr J) k)))
             (let ((l (ite (jtest (bpf.JumpIf.Cond j) A (bpf.JumpIf.Val j)) (seccomp.JumpIf.trueLabel rec) (seccomp.JumpIf.falseLabel rec))))
               (let ((d (destOf L l x)))
                 (ite (<= d x) (PPend l A) (runP3 I J L d A)))))))
       PStuck))))))))
(define-fun stripP ((o OutP)) Outcome
  (ite ((_ is PRet) o) (Ret (pret_val o)) (ite ((_ is PFall) o) (Fall (pfall_A o)) Stuck)))
; the outcome after one more instruction / mark, in terms of the outcome before
(define-fun extRet ((o OutP) (v (_ BitVec 32))) OutP (ite ((_ is PFall) o) (PRet v) o))
(define-fun extLd ((o OutP) (off (_ BitVec 32))) OutP (ite ((_ is PFall) o) (PFall (word ev off)) o))
(define-fun extJif ((o OutP) (cond Int) (k (_ BitVec 32)) (lt Int) (lf Int)) OutP
  (ite ((_ is PFall) o) (PPend (ite (jtest cond (pfall_A o) k) lt lf) (pfall_A o)) o))
(define-fun extMark ((o OutP) (l Int)) OutP
  (ite (and ((_ is PPend) o) (= (ppend_l o) l)) (PFall (ppend_A o)) o))
; G describes the outcome o; a label that is taken but has no position yet is the pending one
(define-fun relG ((G GState) (L Map<Int~Slice<Int>>) (o OutP)) Bool
  (and (ite ((_ is PRet) o) (and (g_done G) (not (g_live G)) (= (g_rval G) (pret_val o)))
       (ite ((_ is PFall) o) (and (not (g_done G)) (g_live G) (= (g_A G) (pfall_A o)))
       (ite ((_ is PPend) o) (and (not (g_done G)) (not (g_live G)) (select (g_taken G) (ppend_l o)) (= (select (g_tA G) (ppend_l o)) (ppend_A o)))
            (and (not (g_done G)) (not (g_live G))))))
       (forall ((l Int)) (! (=> (and (select (g_taken G) l) (not (select (Map<Int~Slice<Int>>.has L) l)))
                                (and ((_ is PPend) o) (= (ppend_l o) l)))
                            :pattern ((select (g_taken G) l))))))
