; strings.ToLower: uninterpreted, idempotent (instances are added by lemmas where needed)
(declare-fun tolower (String) String)
