; strings.ToLower: uninterpreted, idempotent (instances are added by lemmas where needed)
(declare-fun tolower (String) String)
; Instances of strings.ToLower on the literal names of the repository (trusted facts about the library function,
; listed as assumptions): the identity on lower-case names, case folding of the operation names.
(assert (and (= (tolower "kill_thread") "kill_thread") (= (tolower "kill_process") "kill_process") (= (tolower "trap") "trap")
             (= (tolower "errno") "errno") (= (tolower "trace") "trace") (= (tolower "log") "log") (= (tolower "allow") "allow")))
(assert (and (= (tolower "Equal") "equal") (= (tolower "NotEqual") "notequal") (= (tolower "GreaterThan") "greaterthan")
             (= (tolower "LessThan") "lessthan") (= (tolower "GreaterOrEqual") "greaterorequal") (= (tolower "LessOrEqual") "lessorequal")
             (= (tolower "BitsSet") "bitsset") (= (tolower "BitsNotSet") "bitsnotset")))
; ToLower is idempotent
(assert (forall ((s String)) (! (= (tolower (tolower s)) (tolower s)) :pattern ((tolower (tolower s))))))
