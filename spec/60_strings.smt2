; strings.ToLower: uninterpreted, idempotent (instances are added by lemmas where needed)
(declare-fun tolower (String) String)
; Instances of strings.ToLower on the literal names of the repository (trusted facts about the library function,
; listed as assumptions): the identity on lower-case names, case folding of the operation names.
(assert (and (= (tolower "kill_thread") "kill_thread") (= (tolower "kill_process") "kill_process") (= (tolower "trap") "trap")
             (= (tolower "errno") "errno") (= (tolower "trace") "trace") (= (tolower "log") "log") (= (tolower "allow") "allow")))
(assert (and (= (tolower "Equal") "equal") (= (tolower "NotEqual") "notequal") (= (tolower "GreaterThan") "greaterthan")
             (= (tolower "LessThan") "lessthan") (= (tolower "GreaterOrEqual") "greaterorequal") (= (tolower "LessOrEqual") "lessorequal")
             (= (tolower "BitsSet") "bitsset") (= (tolower "BitsNotSet") "bitsnotset")))
; ToLower is idempotent
(assert (forall ((s String)) (! (= (tolower (tolower s)) (tolower s)) :pattern ((tolower (tolower s))))))
; SHA-256 and hexadecimal text (cmd/seccomp-profiler: hashBinary, cachedDumpFile): uninterpreted functions of the bytes
(declare-fun sha256of (String) String)
(declare-fun hexof (String) String)
; a SHA-256 digest has 32 bytes; hexadecimal text has two characters per byte
(assert (forall ((s String)) (! (= (str.len (sha256of s)) 32) :pattern ((sha256of s)))))
(assert (forall ((s String)) (! (= (str.len (hexof s)) (* 2 (str.len s))) :pattern ((hexof s)))))
