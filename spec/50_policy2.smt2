; ---------------------------------------------------------------------------
; Trusted spec library, part 6: meaning of a group / policy for the ghost event
; (DESIGN.md 3.4; taken from the statements of C01, C03, C04). Named functions
; (not macros) so that they are opaque but congruent in the quantifier-free stage.
; ---------------------------------------------------------------------------
(define-fun numOf ((ai arch.Info) (name String)) (_ BitVec 32)
  (i2w32 (int.or (ite (select (Map<String~Int>.has (arch.Info.SyscallNames ai)) name)
                      (select (Map<String~Int>.val (arch.Info.SyscallNames ai)) name) 0)
                 (arch.Info.SeccompMask ai))))
(define-fun knownName ((ai arch.Info) (name String)) Bool (select (Map<String~Int>.has (arch.Info.SyscallNames ai)) name))
(define-fun condsHold ((l Slice<seccomp.Condition>)) Bool
  (forall ((q Int)) (=> (and (<= 0 q) (< q (Slice<seccomp.Condition>.len l))) (holds (select (Slice<seccomp.Condition>.arr l) q) ev))))
(define-fun gNamesMatch ((ai arch.Info) (names Slice<String>)) Bool
  (exists ((i Int)) (and (<= 0 i) (< i (Slice<String>.len names))
     (knownName ai (select (Slice<String>.arr names) i)) (= (numOf ai (select (Slice<String>.arr names) i)) (ev_nr ev)))))
(define-fun gNwcMatch ((ai arch.Info) (nwc Slice<seccomp.NameWithConditions>)) Bool
  (exists ((i Int)) (and (<= 0 i) (< i (Slice<seccomp.NameWithConditions>.len nwc))
     (let ((nc (select (Slice<seccomp.NameWithConditions>.arr nwc) i)))
       (and (knownName ai (seccomp.NameWithConditions.Name nc)) (= (numOf ai (seccomp.NameWithConditions.Name nc)) (ev_nr ev))
            (condsHold (seccomp.NameWithConditions.Conditions nc)))))))
; C01/C03: a group matches the event iff it lists the event's number unconditionally, or with a satisfied condition list
(define-fun groupMatchesN ((ai arch.Info) (names Slice<String>) (nwc Slice<seccomp.NameWithConditions>)) Bool
  (or (gNamesMatch ai names) (gNwcMatch ai nwc)))
(define-fun groupMatchesF ((ai arch.Info) (g seccomp.SyscallGroup)) Bool
  (groupMatchesN ai (seccomp.SyscallGroup.Names g) (seccomp.SyscallGroup.NamesWithCondtions g)))
(define-fun groupAt ((gs Slice<seccomp.SyscallGroup>) (i Int)) seccomp.SyscallGroup (select (Slice<seccomp.SyscallGroup>.arr gs) i))
; o is the outcome after the first k groups: the action of the first matching group, else fall through with A = nr
(define-fun polRel ((ai arch.Info) (gs Slice<seccomp.SyscallGroup>) (k Int) (o Outcome)) Bool
  (or (exists ((i Int)) (and (<= 0 i) (< i k) (groupMatchesF ai (groupAt gs i))
                             (forall ((h Int)) (=> (and (<= 0 h) (< h i)) (not (groupMatchesF ai (groupAt gs h)))))
                             (= o (Ret (enc (seccomp.SyscallGroup.Action (groupAt gs i)))))))
      (and (forall ((i Int)) (=> (and (<= 0 i) (< i k)) (not (groupMatchesF ai (groupAt gs i)))))
           (= o (Fall (ev_nr ev))))))
; o is the decision after all groups: the action of the first matching group, else the default action (C01)
(define-fun polDone ((ai arch.Info) (dflt (_ BitVec 32)) (gs Slice<seccomp.SyscallGroup>) (o Outcome)) Bool
  (or (exists ((i Int)) (and (<= 0 i) (< i (Slice<seccomp.SyscallGroup>.len gs)) (groupMatchesF ai (groupAt gs i))
                             (forall ((h Int)) (=> (and (<= 0 h) (< h i)) (not (groupMatchesF ai (groupAt gs h)))))
                             (= o (Ret (enc (seccomp.SyscallGroup.Action (groupAt gs i)))))))
      (and (forall ((i Int)) (=> (and (<= 0 i) (< i (Slice<seccomp.SyscallGroup>.len gs))) (not (groupMatchesF ai (groupAt gs i)))))
           (= o (Ret (enc dflt))))))
; C01 + C04: the decision of policy (ai, default, groups) on the ghost event
(define-fun decisionRel ((ai arch.Info) (dflt (_ BitVec 32)) (gs Slice<seccomp.SyscallGroup>) (o Outcome)) Bool
  (ite (not (= (ev_arch ev) (arch.Info.ID ai))) (= o (Ret (enc dflt)))
  (ite (and (= (arch.Info.ID ai) #xc000003e) (bvuge (ev_nr ev) #x40000000)) (= o (Ret #x00050026))
       (polDone ai dflt gs o))))
; the seven documented actions (linux/seccomp.h); USER_NOTIF is not in the name table
(define-fun knownAction ((a (_ BitVec 32))) Bool
  (or (= a #x00000000) (= a #x80000000) (= a #x00030000) (= a #x00050000) (= a #x7ff00000) (= a #x7ffc0000) (= a #x7fff0000)))
; every conditional entry of the group carries at least one condition (C03/C07 carve-out)
(define-fun nwcListsNonEmpty ((nwc Slice<seccomp.NameWithConditions>)) Bool
  (forall ((i Int)) (=> (and (<= 0 i) (< i (Slice<seccomp.NameWithConditions>.len nwc)))
     (>= (Slice<seccomp.Condition>.len (seccomp.NameWithConditions.Conditions (select (Slice<seccomp.NameWithConditions>.arr nwc) i))) 1))))
(define-fun groupListsNonEmpty ((g seccomp.SyscallGroup)) Bool (nwcListsNonEmpty (seccomp.SyscallGroup.NamesWithCondtions g)))
(define-fun policyListsNonEmpty ((gs Slice<seccomp.SyscallGroup>)) Bool
  (forall ((i Int)) (=> (and (<= 0 i) (< i (Slice<seccomp.SyscallGroup>.len gs))) (groupListsNonEmpty (groupAt gs i)))))

; C07: the defects of a group that must be rejected (names unknown / duplicated / listed with and without conditions,
; argument index above 5, operation not implemented)
(define-fun groupValidN ((ai arch.Info) (names Slice<String>) (nwc Slice<seccomp.NameWithConditions>)) Bool
  (and (forall ((i Int)) (=> (and (<= 0 i) (< i (Slice<String>.len names))) (knownName ai (select (Slice<String>.arr names) i))))
       (forall ((i Int) (h Int)) (=> (and (<= 0 h) (< h i) (< i (Slice<String>.len names)))
                                     (not (= (select (Slice<String>.arr names) h) (select (Slice<String>.arr names) i)))))
       (forall ((i Int)) (=> (and (<= 0 i) (< i (Slice<seccomp.NameWithConditions>.len nwc)))
          (let ((nc (select (Slice<seccomp.NameWithConditions>.arr nwc) i)))
            (and (knownName ai (seccomp.NameWithConditions.Name nc))
                 (forall ((b Int)) (=> (and (<= 0 b) (< b (Slice<seccomp.Condition>.len (seccomp.NameWithConditions.Conditions nc))))
                    (let ((c (select (Slice<seccomp.Condition>.arr (seccomp.NameWithConditions.Conditions nc)) b)))
                      (and (bvule (seccomp.Condition.Argument c) #x00000005) (knownOp (seccomp.Condition.Operation c))))))
                 (forall ((h Int)) (=> (and (<= 0 h) (< h (Slice<String>.len names)))
                    (not (= (select (Slice<String>.arr names) h) (seccomp.NameWithConditions.Name nc)))))))))))
(define-fun groupValidF ((ai arch.Info) (g seccomp.SyscallGroup)) Bool
  (groupValidN ai (seccomp.SyscallGroup.Names g) (seccomp.SyscallGroup.NamesWithCondtions g)))
; every return of the block returns the action of one of the first k groups
(define-fun retsActUpTo ((p Slice<I.bpf.Instruction>) (gs Slice<seccomp.SyscallGroup>) (k Int)) Bool
  (forall ((pc Int)) (! (=> (and (<= 0 pc) (< pc (plen p)) ((_ is I.bpf.Instruction.box.bpf.RetConstant) (insnAt p pc)))
     (exists ((i Int)) (and (<= 0 i) (< i k)
        (= (bpf.RetConstant.Val (I.bpf.Instruction.unbox.bpf.RetConstant (insnAt p pc))) (enc (seccomp.SyscallGroup.Action (groupAt gs i)))))))
     :pattern ((insnAt p pc)))))
; C05: closed return set of a whole policy program: every return value is the encoding of the default action, of one of
; the groups' actions, or ERRNO(ENOSYS) on x86_64 (from the statement of C05)
(define-fun retValOK ((v (_ BitVec 32)) (ai arch.Info) (dflt (_ BitVec 32)) (gs Slice<seccomp.SyscallGroup>)) Bool
  (or (= v (enc dflt)) (and (= (arch.Info.ID ai) #xc000003e) (= v #x00050026))
      (exists ((i Int)) (and (<= 0 i) (< i (Slice<seccomp.SyscallGroup>.len gs)) (= v (enc (seccomp.SyscallGroup.Action (groupAt gs i))))))))
(define-fun retsPolicy ((p Slice<I.bpf.Instruction>) (ai arch.Info) (dflt (_ BitVec 32)) (gs Slice<seccomp.SyscallGroup>)) Bool
  (forall ((pc Int)) (! (=> (and (<= 0 pc) (< pc (plen p)) ((_ is I.bpf.Instruction.box.bpf.RetConstant) (insnAt p pc)))
     (retValOK (bpf.RetConstant.Val (I.bpf.Instruction.unbox.bpf.RetConstant (insnAt p pc))) ai dflt gs))
     :pattern ((insnAt p pc)))))
; kernel filter verifier (DESIGN.md 3.5) for the instruction kinds the compiler can emit: bpf_check_classic + seccomp_check_filter.
; insnStrictOK: permitted kind; loads aligned and inside seccomp_data; every jump lands on an instruction of the program.
(define-fun insnStrictOK ((p Slice<I.bpf.Instruction>) (pc Int)) Bool
  (let ((i (insnAt p pc)))
    (or ((_ is I.bpf.Instruction.box.bpf.RetConstant) i)
        (validLoad i)
        (and ((_ is I.bpf.Instruction.box.bpf.JumpIf) i)
             (let ((j (I.bpf.Instruction.unbox.bpf.JumpIf i)))
               (and (<= 0 (bpf.JumpIf.Cond j)) (<= (bpf.JumpIf.Cond j) 7)
                    (<= 0 (bpf.JumpIf.SkipTrue j)) (<= (bpf.JumpIf.SkipTrue j) 255)
                    (<= 0 (bpf.JumpIf.SkipFalse j)) (<= (bpf.JumpIf.SkipFalse j) 255)
                    (< (+ pc 1 (bpf.JumpIf.SkipTrue j)) (plen p)) (< (+ pc 1 (bpf.JumpIf.SkipFalse j)) (plen p)))))
        (and ((_ is I.bpf.Instruction.box.bpf.Jump) i)
             (< (+ pc 1 (w2i32 (bpf.Jump.Skip (I.bpf.Instruction.unbox.bpf.Jump i)))) (plen p))))))
(define-fun strictClosed ((p Slice<I.bpf.Instruction>)) Bool
  (forall ((pc Int)) (! (=> (and (<= 0 pc) (< pc (plen p))) (insnStrictOK p pc)) :pattern ((insnAt p pc)))))
(define-fun kernelAccepts ((p Slice<I.bpf.Instruction>)) Bool
  (and (>= (plen p) 1) (<= (plen p) 4096)
       ((_ is I.bpf.Instruction.box.bpf.RetConstant) (insnAt p (- (plen p) 1)))
       (strictClosed p)))
; C07 (d): distinct known names of the architecture have distinct filter numbers (number | mask as a 32-bit word).
; For the five tables of the repository this is a ground obligation of C12/C07 (exact evaluation of the literals).
(define-fun infoInj ((ai arch.Info)) Bool
  (forall ((a String) (b String)) (! (=> (and (knownName ai a) (knownName ai b) (= (numOf ai a) (numOf ai b))) (= a b))
      :pattern ((select (Map<String~Int>.val (arch.Info.SyscallNames ai)) a) (select (Map<String~Int>.val (arch.Info.SyscallNames ai)) b)))))
; C07 (d), bookkeeping of toSyscallsWithConditions: every entry (every entry without conditions) stems from one of the
; first k names of the group. Named predicates, opaque except in the obligations that need them: together with the
; converse invariant (every name has an entry) the two quantifier alternations would feed each other.
(define-fun entriesFromNamesS ((ai arch.Info) (names Slice<String>) (sc Slice<seccomp.SyscallWithConditions>) (k Int)) Bool
  (forall ((e Int)) (! (=> (and (<= 0 e) (< e (Slice<seccomp.SyscallWithConditions>.len sc)))
      (exists ((i Int)) (and (<= 0 i) (< i k) (knownName ai (select (Slice<String>.arr names) i))
         (= (seccomp.SyscallWithConditions.Num (select (Slice<seccomp.SyscallWithConditions>.arr sc) e)) (numOf ai (select (Slice<String>.arr names) i))))))
      :pattern ((select (Slice<seccomp.SyscallWithConditions>.arr sc) e)))))
(define-fun uncondFromNamesS ((ai arch.Info) (names Slice<String>) (sc Slice<seccomp.SyscallWithConditions>)) Bool
  (forall ((e Int)) (! (=> (and (<= 0 e) (< e (Slice<seccomp.SyscallWithConditions>.len sc))
                                (= (Slice<Slice<seccomp.Condition>>.len (seccomp.SyscallWithConditions.Conditions (select (Slice<seccomp.SyscallWithConditions>.arr sc) e))) 0))
      (exists ((i Int)) (and (<= 0 i) (< i (Slice<String>.len names)) (knownName ai (select (Slice<String>.arr names) i))
         (= (seccomp.SyscallWithConditions.Num (select (Slice<seccomp.SyscallWithConditions>.arr sc) e)) (numOf ai (select (Slice<String>.arr names) i))))))
      :pattern ((select (Slice<seccomp.SyscallWithConditions>.arr sc) e)))))
