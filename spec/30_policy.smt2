; ---------------------------------------------------------------------------
; Trusted spec library, part 3: meaning of a policy (DESIGN.md 3.4), from the
; property statements C01-C03: unsigned 64-bit relations.
; ---------------------------------------------------------------------------
(define-fun knownOp ((op String)) Bool
  (or (= op "Equal") (= op "NotEqual") (= op "GreaterThan") (= op "LessThan")
      (= op "GreaterOrEqual") (= op "LessOrEqual") (= op "BitsSet") (= op "BitsNotSet")))
(define-fun rel64 ((op String) (a (_ BitVec 64)) (v (_ BitVec 64))) Bool
  (ite (= op "Equal") (= a v)
  (ite (= op "NotEqual") (not (= a v))
  (ite (= op "GreaterThan") (bvugt a v)
  (ite (= op "LessThan") (bvult a v)
  (ite (= op "GreaterOrEqual") (bvuge a v)
  (ite (= op "LessOrEqual") (bvule a v)
  (ite (= op "BitsSet") (not (= (bvand a v) #x0000000000000000))
       (= (bvand a v) #x0000000000000000)))))))))
(define-fun holds ((c seccomp.Condition) (e Event)) Bool
  (rel64 (seccomp.Condition.Operation c) (select (ev_args e) (seccomp.Condition.Argument c)) (seccomp.Condition.Value c)))
; SECCOMP_RET_ERRNO | EPERM for the errno action, every other action verbatim
(define-fun enc ((a (_ BitVec 32))) (_ BitVec 32) (ite (= a #x00050000) #x00050001 a))
