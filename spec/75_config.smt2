; ---------------------------------------------------------------------------
; Trusted spec library, part 7b: the documented configuration path (C14, C15).
; A policy file denotes a configuration (fileCfg: what the YAML loader of go-ucfg makes of the WHOLE file, numbers
; exact); a loaded configuration object carries one (cfgOf); a configuration denotes a policy (policyOf: what
; Config.Unpack assigns). All three are uninterpreted: the contracts of the library functions (spec/*.spec and the
; contract file of cmd/sandbox) say which calls establish which equalities - this is where the assumption "go-ucfg's
; YAML path is faithful" lives. A loader without such a contract establishes nothing.
; ---------------------------------------------------------------------------
(declare-sort Cfg 0)
(declare-fun fileCfg (String) Cfg)
(declare-fun bytesCfg (Slice<Int>) Cfg)
(declare-fun cfgOf (ucfg.Config) Cfg)
(declare-fun policyOf (Cfg) seccomp.Policy)
