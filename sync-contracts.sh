#!/bin/sh
# copy the contract mirror into /repo (the /repo copies are the ones the checks read)
cd /verif/contracts && find . -name verif_contracts.go | while read f; do mkdir -p "/repo/$(dirname $f)"; cp "$f" "/repo/$f"; done
